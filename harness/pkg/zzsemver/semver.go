// Copy of golang.org/x/mod@v0.41.0/semver/semver.go (BSD-style license, The Go Authors), used as
// the executable SemVer reference for C08. The package clause is the only change.
// Copyright 2018 The Go Authors. All rights reserved.
// Use of this source code is governed by a BSD-style
// license that can be found in the LICENSE file.

// Package semver implements comparison of semantic version strings.
// In this package, semantic version strings must begin with a leading "v",
// as in "v1.0.0".
//
// The general form of a semantic version string accepted by this package is
//
//	vMAJOR[.MINOR[.PATCH[-PRERELEASE][+BUILD]]]
//
// where square brackets indicate optional parts of the syntax;
// MAJOR, MINOR, and PATCH are decimal integers without extra leading zeros;
// PRERELEASE and BUILD are each a series of non-empty dot-separated identifiers
// using only alphanumeric characters and hyphens; and
// all-numeric PRERELEASE identifiers must not have leading zeros.
//
// This package follows Semantic Versioning 2.0.0 (see semver.org)
// with two exceptions. First, it requires the "v" prefix. Second, it recognizes
// vMAJOR and vMAJOR.MINOR (with no prerelease or build suffixes)
// as shorthands for vMAJOR.0.0 and vMAJOR.MINOR.0.
package zzsemver

import (
	"slices"
	"strings"
)

// parsed returns the parsed form of a semantic version string.
type parsed struct {
	major      string
	minor      string
	patch      string
	short      string
	prerelease string
	build      string
}

// IsValid reports whether v is a valid semantic version string.
func IsValid(v string) bool {
	_, ok := parse(v)
	return ok
}

// Canonical returns the canonical formatting of the semantic version v.
// It fills in any missing .MINOR or .PATCH and discards build metadata.
// Two semantic versions compare equal only if their canonical formatting
// is an identical string.
// The canonical invalid semantic version is the empty string.
func Canonical(v string) string {
	p, ok := parse(v)
	if !ok {
		return ""
	}
	if p.build != "" {
		return v[:len(v)-len(p.build)]
	}
	if p.short != "" {
		return v + p.short
	}
	return v
}

// Major returns the major version prefix of the semantic version v.
// For example, Major("v2.1.0") == "v2".
// If v is an invalid semantic version string, Major returns the empty string.
func Major(v string) string {
	pv, ok := parse(v)
	if !ok {
		return ""
	}
	return v[:1+len(pv.major)]
}

// MajorMinor returns the major.minor version prefix of the semantic version v.
// For example, MajorMinor("v2.1.0") == "v2.1".
// If v is an invalid semantic version string, MajorMinor returns the empty string.
func MajorMinor(v string) string {
	pv, ok := parse(v)
	if !ok {
		return ""
	}
	i := 1 + len(pv.major)
	if j := i + 1 + len(pv.minor); j <= len(v) && v[i] == '.' && v[i+1:j] == pv.minor {
		return v[:j]
	}
	return v[:i] + "." + pv.minor
}

// Prerelease returns the prerelease suffix of the semantic version v.
// For example, Prerelease("v2.1.0-pre+meta") == "-pre".
// If v is an invalid semantic version string, Prerelease returns the empty string.
func Prerelease(v string) string {
	pv, ok := parse(v)
	if !ok {
		return ""
	}
	return pv.prerelease
}

// Build returns the build suffix of the semantic version v.
// For example, Build("v2.1.0+meta") == "+meta".
// If v is an invalid semantic version string, Build returns the empty string.
func Build(v string) string {
	pv, ok := parse(v)
	if !ok {
		return ""
	}
	return pv.build
}

// Compare returns an integer comparing two versions according to
// semantic version precedence.
// The result will be 0 if v == w, -1 if v < w, or +1 if v > w.
//
// An invalid semantic version string is considered less than a valid one.
// All invalid semantic version strings compare equal to each other.
func Compare(v, w string) int {
	pv, ok1 := parse(v)
	pw, ok2 := parse(w)
	if !ok1 && !ok2 {
		return 0
	}
	if !ok1 {
		return -1
	}
	if !ok2 {
		return +1
	}
	if c := compareInt(pv.major, pw.major); c != 0 {
		return c
	}
	if c := compareInt(pv.minor, pw.minor); c != 0 {
		return c
	}
	if c := compareInt(pv.patch, pw.patch); c != 0 {
		return c
	}
	return comparePrerelease(pv.prerelease, pw.prerelease)
}

// Max canonicalizes its arguments and then returns the version string
// that compares greater.
//
// Deprecated: use [Compare] instead. In most cases, returning a canonicalized
// version is not expected or desired.
func Max(v, w string) string {
	v = Canonical(v)
	w = Canonical(w)
	if Compare(v, w) > 0 {
		return v
	}
	return w
}

// ByVersion implements [sort.Interface] for sorting semantic version strings.
type ByVersion []string

func (vs ByVersion) Len() int           { return len(vs) }
func (vs ByVersion) Swap(i, j int)      { vs[i], vs[j] = vs[j], vs[i] }
func (vs ByVersion) Less(i, j int) bool { return compareVersion(vs[i], vs[j]) < 0 }

// Sort sorts a list of semantic version strings using [Compare] and falls back
// to use [strings.Compare] if both versions are considered equal.
func Sort(list []string) {
	slices.SortFunc(list, compareVersion)
}

func compareVersion(a, b string) int {
	cmp := Compare(a, b)
	if cmp != 0 {
		return cmp
	}
	return strings.Compare(a, b)
}

func parse(v string) (p parsed, ok bool) {
	if v == "" || v[0] != 'v' {
		return
	}
	p.major, v, ok = parseInt(v[1:])
	if !ok {
		return
	}
	if v == "" {
		p.minor = "0"
		p.patch = "0"
		p.short = ".0.0"
		return
	}
	if v[0] != '.' {
		ok = false
		return
	}
	p.minor, v, ok = parseInt(v[1:])
	if !ok {
		return
	}
	if v == "" {
		p.patch = "0"
		p.short = ".0"
		return
	}
	if v[0] != '.' {
		ok = false
		return
	}
	p.patch, v, ok = parseInt(v[1:])
	if !ok {
		return
	}
	if len(v) > 0 && v[0] == '-' {
		p.prerelease, v, ok = parsePrerelease(v)
		if !ok {
			return
		}
	}
	if len(v) > 0 && v[0] == '+' {
		p.build, v, ok = parseBuild(v)
		if !ok {
			return
		}
	}
	if v != "" {
		ok = false
		return
	}
	ok = true
	return
}

func parseInt(v string) (t, rest string, ok bool) {
	if v == "" {
		return
	}
	if v[0] < '0' || '9' < v[0] {
		return
	}
	i := 1
	for i < len(v) && '0' <= v[i] && v[i] <= '9' {
		i++
	}
	if v[0] == '0' && i != 1 {
		return
	}
	return v[:i], v[i:], true
}

func parsePrerelease(v string) (t, rest string, ok bool) {
	// "A pre-release version MAY be denoted by appending a hyphen and
	// a series of dot separated identifiers immediately following the patch version.
	// Identifiers MUST comprise only ASCII alphanumerics and hyphen [0-9A-Za-z-].
	// Identifiers MUST NOT be empty. Numeric identifiers MUST NOT include leading zeroes."
	if v == "" || v[0] != '-' {
		return
	}
	i := 1
	start := 1
	for i < len(v) && v[i] != '+' {
		if !isIdentChar(v[i]) && v[i] != '.' {
			return
		}
		if v[i] == '.' {
			if start == i || isBadNum(v[start:i]) {
				return
			}
			start = i + 1
		}
		i++
	}
	if start == i || isBadNum(v[start:i]) {
		return
	}
	return v[:i], v[i:], true
}

func parseBuild(v string) (t, rest string, ok bool) {
	if v == "" || v[0] != '+' {
		return
	}
	i := 1
	start := 1
	for i < len(v) {
		if !isIdentChar(v[i]) && v[i] != '.' {
			return
		}
		if v[i] == '.' {
			if start == i {
				return
			}
			start = i + 1
		}
		i++
	}
	if start == i {
		return
	}
	return v[:i], v[i:], true
}

func isIdentChar(c byte) bool {
	return 'A' <= c && c <= 'Z' || 'a' <= c && c <= 'z' || '0' <= c && c <= '9' || c == '-'
}

func isBadNum(v string) bool {
	i := 0
	for i < len(v) && '0' <= v[i] && v[i] <= '9' {
		i++
	}
	return i == len(v) && i > 1 && v[0] == '0'
}

func isNum(v string) bool {
	i := 0
	for i < len(v) && '0' <= v[i] && v[i] <= '9' {
		i++
	}
	return i == len(v)
}

func compareInt(x, y string) int {
	if x == y {
		return 0
	}
	if len(x) < len(y) {
		return -1
	}
	if len(x) > len(y) {
		return +1
	}
	if x < y {
		return -1
	} else {
		return +1
	}
}

func comparePrerelease(x, y string) int {
	// "When major, minor, and patch are equal, a pre-release version has
	// lower precedence than a normal version.
	// Example: 1.0.0-alpha < 1.0.0.
	// Precedence for two pre-release versions with the same major, minor,
	// and patch version MUST be determined by comparing each dot separated
	// identifier from left to right until a difference is found as follows:
	// identifiers consisting of only digits are compared numerically and
	// identifiers with letters or hyphens are compared lexically in ASCII
	// sort order. Numeric identifiers always have lower precedence than
	// non-numeric identifiers. A larger set of pre-release fields has a
	// higher precedence than a smaller set, if all of the preceding
	// identifiers are equal.
	// Example: 1.0.0-alpha < 1.0.0-alpha.1 < 1.0.0-alpha.beta <
	// 1.0.0-beta < 1.0.0-beta.2 < 1.0.0-beta.11 < 1.0.0-rc.1 < 1.0.0."
	if x == y {
		return 0
	}
	if x == "" {
		return +1
	}
	if y == "" {
		return -1
	}
	for x != "" && y != "" {
		x = x[1:] // skip - or .
		y = y[1:] // skip - or .
		var dx, dy string
		dx, x = nextIdent(x)
		dy, y = nextIdent(y)
		if dx != dy {
			ix := isNum(dx)
			iy := isNum(dy)
			if ix != iy {
				if ix {
					return -1
				} else {
					return +1
				}
			}
			if ix {
				if len(dx) < len(dy) {
					return -1
				}
				if len(dx) > len(dy) {
					return +1
				}
			}
			if dx < dy {
				return -1
			} else {
				return +1
			}
		}
	}
	if x == "" {
		return -1
	} else {
		return +1
	}
}

func nextIdent(x string) (dx, rest string) {
	i := 0
	for i < len(x) && x[i] != '.' {
		i++
	}
	return x[:i], x[i:]
}
