// Package zzvv is the harness vocabulary of /verif (overlaid into the module at check time; it
// is never part of the repository). Natively Assume/Assert panic with tagged values so that a
// replay distinguishes "assumption not met" from "assertion violated"; the symbolic engine
// intercepts all of these functions.
package zzvv

import (
	"os"
	"reflect"
	"runtime"
	"strings"
	"sync"
)

type AssumeFailed struct{}
type AssertFailed struct{ Msg string }

var active map[string]bool

// Asserts counts the assertions passed so far (native replay only).
var Asserts int

func init() {
	active = map[string]bool{}
	for _, id := range strings.Split(os.Getenv("VX_ACTIVE"), ",") {
		if id != "" {
			active[id] = true
		}
	}
}

// SetActive replaces the set of active known-finding ids (native replay).
func SetActive(ids []string) {
	active = map[string]bool{}
	for _, id := range ids {
		active[id] = true
	}
}

// Assume restricts the inputs under consideration.
func Assume(c bool) {
	if !c {
		panic(AssumeFailed{})
	}
}

// Assert states the property.
func Assert(c bool, msg string) {
	if !c {
		panic(AssertFailed{msg})
	}
	Asserts++
}

// Reached marks the point where the inputs have been accepted (vacuity guard).
func Reached() { Asserts++ }

// Known is cond while the known finding id is open and active, else false.
func Known(id string, cond bool) bool { return active[id] && cond }

// Epoch marks the boundary after which writes to previously allocated memory are monitored.
func Epoch() {}

// IsNil reports whether x is a nil interface or holds a nil pointer.
func IsNil(x any) bool {
	if x == nil {
		return true
	}
	rv := reflect.ValueOf(x)
	switch rv.Kind() {
	case reflect.Ptr, reflect.Map, reflect.Slice, reflect.Func, reflect.Interface, reflect.Chan:
		return rv.IsNil()
	}
	return false
}

// Concurrently runs f in two goroutines at the same time and then once more sequentially, and
// requires the observation logs (Observe) of all three runs to be identical. The two goroutines
// are released by one barrier and do not synchronise with each other inside f (Observe reads a map
// that is read-only while they run), so the race detector sees every conflicting access of the two
// runs as unordered whatever the actual timing. The symbolic engine runs f once (the write monitor
// covers interleavings by reduction, see DESIGN C19).
func Concurrently(f func()) {
	var wg, ready sync.WaitGroup
	start := make(chan struct{})
	var locals [2][]int
	var ids [2]uint64
	panics := make([]any, 2)
	for g := 0; g < 2; g++ {
		wg.Add(1)
		ready.Add(1)
		go func(g int) {
			defer wg.Done()
			defer func() { panics[g] = recover() }()
			ids[g] = goid()
			ready.Done()
			<-start
			f()
		}(g)
	}
	ready.Wait()
	slots = map[uint64]*[]int{ids[0]: &locals[0], ids[1]: &locals[1]}
	close(start)
	wg.Wait()
	slots = nil
	for _, p := range panics {
		if p != nil {
			panic(p)
		}
	}
	obs = nil
	f()
	seq := obs
	for _, r := range locals {
		if len(r) != len(seq) {
			panic(AssertFailed{"C19: concurrent run observed a different number of results"})
		}
		for i := range r {
			if r[i] != seq[i] {
				panic(AssertFailed{"C19: concurrent run returned a different result than the sequential run"})
			}
		}
	}
}

var (
	obs   []int
	slots map[uint64]*[]int
)

// Observe records a result of the current run.
func Observe(x int) {
	if slots != nil {
		if l, ok := slots[goid()]; ok {
			*l = append(*l, x)
		}
		return
	}
	obs = append(obs, x)
}

func goid() uint64 {
	var buf [64]byte
	n := runtime.Stack(buf[:], false)
	// "goroutine 123 [running]:..."
	var id uint64
	for i := len("goroutine "); i < n && buf[i] >= '0' && buf[i] <= '9'; i++ {
		id = id*10 + uint64(buf[i]-'0')
	}
	return id
}
