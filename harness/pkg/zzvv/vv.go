// Package zzvv is the harness vocabulary of /verif (overlaid into the module at check time; it
// is never part of the repository). Natively Assume/Assert panic with tagged values so that a
// replay distinguishes "assumption not met" from "assertion violated"; the symbolic engine
// intercepts all of these functions.
package zzvv

import (
	"os"
	"reflect"
	"strings"
)

type AssumeFailed struct{}
type AssertFailed struct{ Msg string }

var active map[string]bool

// Asserts counts the assertions passed so far (native replay only).
var Asserts int

func init() {
	active = map[string]bool{}
	for _, id := range strings.Split(os.Getenv("VX_ACTIVE"), ",") {
		if id != "" {
			active[id] = true
		}
	}
}

// SetActive replaces the set of active known-finding ids (native replay).
func SetActive(ids []string) {
	active = map[string]bool{}
	for _, id := range ids {
		active[id] = true
	}
}

// Assume restricts the inputs under consideration.
func Assume(c bool) {
	if !c {
		panic(AssumeFailed{})
	}
}

// Assert states the property.
func Assert(c bool, msg string) {
	if !c {
		panic(AssertFailed{msg})
	}
	Asserts++
}

// Known is cond while the known finding id is open and active, else false.
func Known(id string, cond bool) bool { return active[id] && cond }

// Epoch marks the boundary after which writes to previously allocated memory are monitored.
func Epoch() {}

// IsNil reports whether x is a nil interface or holds a nil pointer.
func IsNil(x any) bool {
	if x == nil {
		return true
	}
	rv := reflect.ValueOf(x)
	switch rv.Kind() {
	case reflect.Ptr, reflect.Map, reflect.Slice, reflect.Func, reflect.Interface, reflect.Chan:
		return rv.IsNil()
	}
	return false
}
