package zzh

import (
	"github.com/alowayed/go-univers/pkg/univers"
	vv "github.com/alowayed/go-univers/pkg/zzvv"
)

// C01 — Compare is a total preorder.
//
// Conditions with && / || live in small helper functions: the engine folds a helper's paths into
// one term (merge at return), whereas a short-circuit operator in the harness body forks the
// top-level path.

func isSign(x int) bool { return x == -1 || x == 0 || x == 1 }

func both(a, b bool) bool { return a && b }

func transLe(ab, bc, ac int) bool { return !(ab <= 0 && bc <= 0) || ac <= 0 }

func transLt(ab, bc, ac int) bool { return !(ab <= 0 && bc <= 0 && (ab < 0 || bc < 0)) || ac < 0 }

func c01Pair[V univers.Version[V], VR univers.VersionRange[V]](e univers.Ecosystem[V, VR], a, b string) {
	va, ea := e.NewVersion(a)
	vv.Assume(ea == nil)
	vb, eb := e.NewVersion(b)
	vv.Assume(eb == nil)
	x := va.Compare(vb)
	y := vb.Compare(va)
	vv.Assert(isSign(x), "C01: Compare result not in {-1,0,1}")
	vv.Assert(x == -y, "C01: Compare(a,b) != -Compare(b,a)")
	vv.Assert(va.Compare(va) == 0, "C01: Compare(a,a) != 0")
	va2, ea2 := e.NewVersion(a)
	vv.Assert(ea2 == nil, "C01: second parse of the same text fails")
	vv.Assume(ea2 == nil)
	vv.Reached()
	vv.Assert(both(va.Compare(va2) == 0, va2.Compare(vb) == x), "C01: a second parse of the same text compares differently")
}

func c01Triple[V univers.Version[V], VR univers.VersionRange[V]](e univers.Ecosystem[V, VR], a, b, c string) {
	va, ea := e.NewVersion(a)
	vv.Assume(ea == nil)
	vb, eb := e.NewVersion(b)
	vv.Assume(eb == nil)
	vc, ec := e.NewVersion(c)
	vv.Assume(ec == nil)
	vv.Reached()
	// the property's sole exclusion: alpm triples mixing versions with and without a pkgrel
	vv.Assume(!c01AlpmMixedPkgrel(e.Name(), a, b, c))
	vv.Assume(!vv.Known("KF-C01-alpm-direct-suffix-heuristic", alpmGlued(e.Name(), a, b, c)))
	ab := va.Compare(vb)
	bc := vb.Compare(vc)
	ac := va.Compare(vc)
	vv.Assert(transLe(ab, bc, ac), "C01: a<=b and b<=c but a>c")
	vv.Assert(transLt(ab, bc, ac), "C01: a<=b<=c with a strict step but not a<c")
}

// hasPkgrel: an alpm version carries an explicit pkgrel iff it contains a '-' (vercmp splits
// [epoch:]pkgver[-pkgrel] at the last hyphen; pkgver itself cannot contain one).
func hasHyphen(s string) bool {
	for i := 0; i < len(s); i++ {
		if s[i] == '-' {
			return true
		}
	}
	return false
}

// alpmGlued: the scope of KF-C01-alpm-direct-suffix-heuristic. compareALMPVersionString answers by a
// text-prefix test (isDirectSuffixComparison) when one pkgver is a strict prefix of the other and
// the next character is a letter, and by the segment algorithm otherwise; the two disagree on
// spelling variants, which breaks transitivity. The finding covers the inputs in which some pair
// of pkgver texts takes the prefix path; with no such pair every comparison runs the segment
// algorithm alone. The bounds of a range text (C20) take part in the pair test like the
// versions; a range text in which a letter directly follows a digit is in scope as before. (inputs only)
func alpmGlued(eco string, texts ...string) bool {
	if eco != "alpm" {
		return false
	}
	for _, s := range texts {
		if alpmIsRangeText(s) {
			for i := 1; i < len(s); i++ {
				if isDig(s[i-1]) && isAlpha(s[i]) {
					return true
				}
			}
		}
	}
	// plain version texts and the bounds of range texts
	var vs []string
	for _, s := range texts {
		if alpmIsRangeText(s) {
			vs = append(vs, alpmBounds(s)...)
		} else {
			vs = append(vs, s)
		}
	}
	for i, x := range vs {
		for j, y := range vs {
			if i != j && alpmPrefixPath(alpmPkgver(x), alpmPkgver(y)) {
				return true
			}
		}
	}
	return false
}

// alpmBounds: the version texts of a range: split at spaces, commas and '|', comparator characters removed.
func alpmBounds(r string) []string {
	var out []string
	cur := ""
	flush := func() {
		if cur != "" {
			out = append(out, cur)
		}
		cur = ""
	}
	for i := 0; i < len(r); i++ {
		switch c := r[i]; c {
		case ' ', ',', '|':
			flush()
		case '<', '>', '=', '!', '^', '*':
		default:
			cur += r[i : i+1]
		}
	}
	flush()
	return out
}

func alpmIsRangeText(s string) bool {
	for i := 0; i < len(s); i++ {
		switch s[i] {
		case '<', '>', '=', '!', ' ', ',', '|', '*', '^':
			return true
		}
	}
	return false
}

// alpmPkgver: the text between the epoch ("N:") and the pkgrel ("-digits" at the end), trimmed.
func alpmPkgver(s string) string {
	s = trimWS(s)
	for i := 0; i < len(s); i++ {
		if s[i] == ':' {
			s = s[i+1:]
			break
		}
	}
	for i := len(s) - 1; i >= 0; i-- {
		if s[i] == '-' && i+1 < len(s) {
			all := true
			for k := i + 1; k < len(s); k++ {
				if !isDig(s[k]) {
					all = false
				}
			}
			if all {
				return s[:i]
			}
		}
	}
	return s
}

// alpmPrefixPath: x is a strict prefix of y and the next character of y is a letter.
func alpmPrefixPath(x, y string) bool {
	if len(x) >= len(y) || y[:len(x)] != x {
		return false
	}
	return isAlpha(y[len(x)])
}

func c01AlpmMixedPkgrel(eco, a, b, c string) bool {
	if eco != "alpm" {
		return false
	}
	ha, hb, hc := hasHyphen(a), hasHyphen(b), hasHyphen(c)
	return ha != hb || hb != hc
}

// vxAccept reaches its assertion iff the version parser accepts some content of the template.
func vxAccept[V univers.Version[V], VR univers.VersionRange[V]](e univers.Ecosystem[V, VR], a string) {
	_, ea := e.NewVersion(a)
	vv.Assume(ea == nil)
	vv.Assert(true, "accepted")
}
