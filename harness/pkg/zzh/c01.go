package zzh

import (
	"github.com/alowayed/go-univers/pkg/univers"
	vv "github.com/alowayed/go-univers/pkg/zzvv"
)

// C01 — Compare is a total preorder.

func c01Pair[V univers.Version[V], VR univers.VersionRange[V]](e univers.Ecosystem[V, VR], a, b string) {
	va, ea := e.NewVersion(a)
	vv.Assume(ea == nil)
	vb, eb := e.NewVersion(b)
	vv.Assume(eb == nil)
	x := va.Compare(vb)
	y := vb.Compare(va)
	vv.Assert(x == -1 || x == 0 || x == 1, "C01: Compare result not in {-1,0,1}")
	vv.Assert(x == -y, "C01: Compare(a,b) != -Compare(b,a)")
	vv.Assert(va.Compare(va) == 0, "C01: Compare(a,a) != 0")
	va2, ea2 := e.NewVersion(a)
	vv.Assert(ea2 == nil, "C01: second parse of the same text fails")
	vv.Assert(va.Compare(va2) == 0 && va2.Compare(vb) == x, "C01: a second parse of the same text compares differently")
}

func c01Triple[V univers.Version[V], VR univers.VersionRange[V]](e univers.Ecosystem[V, VR], a, b, c string) {
	va, ea := e.NewVersion(a)
	vv.Assume(ea == nil)
	vb, eb := e.NewVersion(b)
	vv.Assume(eb == nil)
	vc, ec := e.NewVersion(c)
	vv.Assume(ec == nil)
	ab := va.Compare(vb)
	bc := vb.Compare(vc)
	ac := va.Compare(vc)
	vv.Assert(!(ab <= 0 && bc <= 0) || ac <= 0, "C01: a<=b and b<=c but a>c")
	vv.Assert(!(ab <= 0 && bc <= 0 && (ab < 0 || bc < 0)) || ac < 0, "C01: a<=b<=c with a strict step but not a<c")
}
