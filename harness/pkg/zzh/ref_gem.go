package zzh

import (
	"strings"

	"github.com/alowayed/go-univers/pkg/univers"
	vv "github.com/alowayed/go-univers/pkg/zzvv"
)

// C13 — reference model: Gem::Version#<=> on canonical_segments (rubygems/version.rb).

type gemSeg struct {
	isNum bool
	s     string // digits (numbers) or letters
}

// gemValid: RubyGems' VERSION_PATTERN  [0-9]+(\.[0-9a-zA-Z]+)*(-[0-9A-Za-z-]+(\.[0-9A-Za-z-]+)*)?
func gemValid(s string) bool {
	i := digitsAt(s, 0)
	if i == 0 {
		return false
	}
	for i < len(s) && s[i] == '.' {
		j := i + 1
		for j < len(s) && isAlnum(s[j]) {
			j++
		}
		if j == i+1 {
			return false
		}
		i = j
	}
	if i < len(s) && s[i] == '-' {
		for {
			j := i + 1
			for j < len(s) && (isAlnum(s[j]) || s[j] == '-') {
				j++
			}
			if j == i+1 {
				return false
			}
			i = j
			if i < len(s) && s[i] == '.' {
				continue
			}
			break
		}
	}
	return i == len(s)
}

func gemSegments(s string) []gemSeg {
	s = strings.ReplaceAll(s, "-", ".pre.")
	var segs []gemSeg
	i := 0
	for i < len(s) {
		switch {
		case isDig(s[i]):
			j := digitsAt(s, i)
			segs = append(segs, gemSeg{true, s[i:j]})
			i = j
		case isAlpha(s[i]):
			j := i
			for j < len(s) && isAlpha(s[j]) {
				j++
			}
			segs = append(segs, gemSeg{false, s[i:j]})
			i = j
		default:
			i++
		}
	}
	return segs
}

func gemIsZero(g gemSeg) bool { return g.isNum && decCmp(g.s, "0") == 0 }

func dropTrailingZeros(x []gemSeg) []gemSeg {
	n := len(x)
	for n > 0 && gemIsZero(x[n-1]) {
		n--
	}
	return x[:n]
}

func gemCanonical(s string) []gemSeg {
	segs := gemSegments(s)
	k := len(segs)
	for i, g := range segs {
		if !g.isNum {
			k = i
			break
		}
	}
	var out []gemSeg
	out = append(out, dropTrailingZeros(segs[:k])...)
	out = append(out, dropTrailingZeros(segs[k:])...)
	return out
}

func gemCompare(a, b string) int {
	x, y := gemCanonical(a), gemCanonical(b)
	n := len(x)
	if len(y) > n {
		n = len(y)
	}
	zero := gemSeg{true, "0"}
	for i := 0; i < n; i++ {
		l, r := zero, zero
		if i < len(x) {
			l = x[i]
		}
		if i < len(y) {
			r = y[i]
		}
		switch {
		case l.isNum && r.isNum:
			if c := decCmp(l.s, r.s); c != 0 {
				return c
			}
		case !l.isNum && r.isNum:
			return -1
		case l.isNum && !r.isNum:
			return 1
		default:
			if l.s < r.s {
				return -1
			}
			if l.s > r.s {
				return 1
			}
		}
	}
	return 0
}

func c13Pair[V univers.Version[V], VR univers.VersionRange[V]](e univers.Ecosystem[V, VR], a, b string) {
	va, ea := e.NewVersion(a)
	vv.Assume(ea == nil)
	vb, eb := e.NewVersion(b)
	vv.Assume(eb == nil)
	vv.Reached()
	vv.Assume(gemValid(a))
	vv.Assume(gemValid(b))
	vv.Assert(sign(va.Compare(vb)) == gemCompare(a, b), "C13: order differs from Gem::Version#<=>")
}
