package zzh

import (
	"github.com/alowayed/go-univers/pkg/univers"
	"github.com/alowayed/go-univers/pkg/zzsemver"
	vv "github.com/alowayed/go-univers/pkg/zzvv"
)

// C08 — SemVer 2.0.0 precedence. Oracle: golang.org/x/mod/semver (source copy in zzsemver),
// executed symbolically by the same engine on the canonical spelling "v"+core+pre+build.

// canonSemver maps an accepted spelling to the reference's: adds the leading "v".
func canonSemver(s string) string {
	if len(s) > 0 && (s[0] == 'v') {
		return s
	}
	return "v" + s
}

func c08Pair[V univers.Version[V], VR univers.VersionRange[V]](e univers.Ecosystem[V, VR], a, b string) {
	va, ea := e.NewVersion(a)
	vv.Assume(ea == nil)
	vb, eb := e.NewVersion(b)
	vv.Assume(eb == nil)
	vv.Reached()
	ca, cb := canonSemver(a), canonSemver(b)
	// restricted to what the reference considers valid SemVer (no leading zeros in numeric
	// identifiers, three components)
	vv.Assume(zzsemver.IsValid(ca))
	vv.Assume(zzsemver.IsValid(cb))
	vv.Assume(!vv.Known("KF-C08-golang-prerelease-as-string", c08GolangPre(e.Name(), ca, cb)))
	vv.Assume(!vv.Known("KF-C08-signed-numeric-identifier", c08SignedIdent(ca, cb)))
	want := zzsemver.Compare(ca, cb)
	vv.Assert(sign(va.Compare(vb)) == want, "C08: order differs from SemVer 2.0.0 precedence (golang.org/x/mod/semver)")
}

// c08GolangPre: both versions carry a pre-release and the byte-wise order of the two pre-release
// strings differs from SemVer's order of them (inputs and reference only).
func c08GolangPre(eco, ca, cb string) bool {
	if eco != "golang" {
		return false
	}
	pa, pb := zzsemver.Prerelease(ca), zzsemver.Prerelease(cb)
	if pa == "" || pb == "" {
		return false
	}
	s := 0
	if pa < pb {
		s = -1
	} else if pa > pb {
		s = 1
	}
	return s != zzsemver.Compare("v0.0.0"+pa, "v0.0.0"+pb)
}

// c08SignedIdent: some pre-release identifier is a '-' or '+' sign followed only by digits
// (strconv.Atoi reads it as a number; SemVer says it is alphanumeric).
func c08SignedIdent(ca, cb string) bool {
	return hasSignedIdent(zzsemver.Prerelease(ca)) || hasSignedIdent(zzsemver.Prerelease(cb))
}

func hasSignedIdent(pre string) bool {
	// pre starts with '-' when non-empty
	i := 1
	for i < len(pre) {
		e := i
		for e < len(pre) && pre[e] != '.' {
			e++
		}
		id := pre[i:e]
		if len(id) >= 2 && id[0] == '-' && allDigits(id[1:]) {
			return true
		}
		i = e + 1
	}
	return false
}

func allDigits(s string) bool {
	if s == "" {
		return false
	}
	for i := 0; i < len(s); i++ {
		if s[i] < '0' || s[i] > '9' {
			return false
		}
	}
	return true
}

// c08Strict: the strict semver ecosystem accepts exactly what the reference accepts
// (the candidate is spelled without "v"; the reference needs it).
func c08Strict[V univers.Version[V], VR univers.VersionRange[V]](e univers.Ecosystem[V, VR], a string) {
	_, ea := e.NewVersion(a)
	// the reference also accepts shortened forms vMAJOR and vMAJOR.MINOR, which SemVer 2.0.0 does
	// not; exclude them by requiring two dots in the core
	vv.Assume(twoDotsInCore(a))
	vv.Assert((ea == nil) == zzsemver.IsValid("v"+a), "C08: semver acceptance differs from SemVer 2.0.0 grammar")
}

func twoDotsInCore(a string) bool {
	n := 0
	for i := 0; i < len(a); i++ {
		if a[i] == '-' || a[i] == '+' {
			break
		}
		if a[i] == '.' {
			n++
		}
	}
	return n == 2
}
