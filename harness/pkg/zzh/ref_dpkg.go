package zzh

import (
	"github.com/alowayed/go-univers/pkg/univers"
	vv "github.com/alowayed/go-univers/pkg/zzvv"
)

// C10 — reference model: dpkg's version comparison (lib/dpkg/version.c: order(), verrevcmp(),
// dpkg_version_compare) and its validity rules (lib/dpkg/parsehelp.c: parseversion).

func isAlpha(c byte) bool { return (c >= 'a' && c <= 'z') || (c >= 'A' && c <= 'Z') }

func dpkgOrder(s string, i int) int {
	if i >= len(s) {
		return 0
	}
	c := s[i]
	switch {
	case isDig(c):
		return 0
	case isAlpha(c):
		return int(c)
	case c == '~':
		return -1
	}
	return int(c) + 256
}

func dpkgVerrevcmp(a, b string) int {
	i, j := 0, 0
	for i < len(a) || j < len(b) {
		firstDiff := 0
		for (i < len(a) && !isDig(a[i])) || (j < len(b) && !isDig(b[j])) {
			ac, bc := dpkgOrder(a, i), dpkgOrder(b, j)
			if ac != bc {
				return sign(ac - bc)
			}
			i++
			j++
		}
		for i < len(a) && a[i] == '0' {
			i++
		}
		for j < len(b) && b[j] == '0' {
			j++
		}
		for i < len(a) && isDig(a[i]) && j < len(b) && isDig(b[j]) {
			if firstDiff == 0 {
				firstDiff = int(a[i]) - int(b[j])
			}
			i++
			j++
		}
		if i < len(a) && isDig(a[i]) {
			return 1
		}
		if j < len(b) && isDig(b[j]) {
			return -1
		}
		if firstDiff != 0 {
			return sign(firstDiff)
		}
	}
	return 0
}

// dpkgSplit: epoch text ("" if none), upstream, revision ("" if none), ok = dpkg accepts.
func dpkgSplit(s string) (string, string, string, bool) {
	epoch := ""
	rest := s
	for i := 0; i < len(s); i++ {
		if s[i] == ':' {
			epoch = s[:i]
			rest = s[i+1:]
			if epoch == "" {
				return "", "", "", false
			}
			break
		}
	}
	for i := 0; i < len(epoch); i++ {
		if !isDig(epoch[i]) {
			return "", "", "", false
		}
	}
	up, rev := rest, ""
	hasRev := false
	for i := len(rest) - 1; i >= 0; i-- {
		if rest[i] == '-' {
			up, rev, hasRev = rest[:i], rest[i+1:], true
			break
		}
	}
	if up == "" || (hasRev && rev == "") {
		return "", "", "", false
	}
	if !isDig(up[0]) {
		return "", "", "", false
	}
	for i := 0; i < len(up); i++ {
		c := up[i]
		if !(isDig(c) || isAlpha(c) || c == '.' || c == '+' || c == '~' || c == '-') {
			return "", "", "", false
		}
	}
	for i := 0; i < len(rev); i++ {
		c := rev[i]
		if !(isDig(c) || isAlpha(c) || c == '.' || c == '+' || c == '~') {
			return "", "", "", false
		}
	}
	return epoch, up, rev, true
}

// decCmp compares two digit strings as non-negative integers of any length.
func decCmp(a, b string) int {
	i, j := 0, 0
	for i < len(a) && a[i] == '0' {
		i++
	}
	for j < len(b) && b[j] == '0' {
		j++
	}
	return runCmp(a[i:], b[j:])
}

func dpkgCompare(a, b string) int {
	ea, ua, ra, _ := dpkgSplit(a)
	eb, ub, rb, _ := dpkgSplit(b)
	if c := decCmp(ea, eb); c != 0 {
		return c
	}
	if c := dpkgVerrevcmp(ua, ub); c != 0 {
		return c
	}
	return dpkgVerrevcmp(ra, rb)
}

func dpkgValid(s string) bool {
	_, _, _, ok := dpkgSplit(s)
	return ok
}

func c10Pair[V univers.Version[V], VR univers.VersionRange[V]](e univers.Ecosystem[V, VR], a, b string) {
	va, ea := e.NewVersion(a)
	vv.Assume(ea == nil)
	vb, eb := e.NewVersion(b)
	vv.Assume(eb == nil)
	vv.Reached()
	vv.Assume(dpkgValid(a))
	vv.Assume(dpkgValid(b))
	vv.Assert(sign(va.Compare(vb)) == dpkgCompare(a, b), "C10: order differs from dpkg --compare-versions")
}
