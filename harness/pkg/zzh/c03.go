package zzh

import (
	"github.com/alowayed/go-univers/pkg/univers"
	vv "github.com/alowayed/go-univers/pkg/zzvv"
)

// C03 — numbers order numerically; pre-release < release < post-release.

// numTupleCmp orders two dotted digit-run tuples textually (no arithmetic shared with the
// implementation): per component the longer run is larger (runs have no leading zeros), equal
// lengths compare bytewise. Separators are '.' or '-'; a leading non-digit prefix is skipped.
func numTupleCmp(a, b string) int {
	i, j := skipPrefix(a), skipPrefix(b)
	for i < len(a) && j < len(b) {
		ie, je := i, j
		for ie < len(a) && isDig(a[ie]) {
			ie++
		}
		for je < len(b) && isDig(b[je]) {
			je++
		}
		if c := runCmp(a[i:ie], b[j:je]); c != 0 {
			return c
		}
		i, j = ie+1, je+1
	}
	return 0
}

func skipPrefix(s string) int {
	i := 0
	for i < len(s) && !isDig(s[i]) {
		i++
	}
	return i
}

func isDig(c byte) bool { return c >= '0' && c <= '9' }

func runCmp(x, y string) int {
	if len(x) != len(y) {
		if len(x) < len(y) {
			return -1
		}
		return 1
	}
	if x < y {
		return -1
	}
	if x > y {
		return 1
	}
	return 0
}

// runsAtMost2p31: every digit run is at most 2147483648 and has no leading zero.
func runsOK(s string) bool {
	i := skipPrefix(s)
	for i < len(s) {
		e := i
		for e < len(s) && isDig(s[e]) {
			e++
		}
		r := s[i:e]
		if len(r) > 1 && r[0] == '0' {
			return false
		}
		if len(r) > 10 || (len(r) == 10 && r > "2147483648") {
			return false
		}
		i = e + 1
	}
	return true
}

func c03Num[V univers.Version[V], VR univers.VersionRange[V]](e univers.Ecosystem[V, VR], a, b string) {
	vv.Assume(runsOK(a))
	vv.Assume(runsOK(b))
	va, ea := e.NewVersion(a)
	vb, eb := e.NewVersion(b)
	vv.Assert(ea == nil, "C03: plain dotted-numeric version rejected")
	vv.Assume(ea == nil)
	vv.Assert(eb == nil, "C03: plain dotted-numeric version rejected")
	vv.Assume(eb == nil)
	vv.Assert(sign(va.Compare(vb)) == numTupleCmp(a, b), "C03: numeric components do not order as integer tuples")
}

// c03NumIf: as c03Num for shapes the ecosystem may reject (github's date-shaped inputs with a
// month above 12 or a day above 31): accepted pairs order as integer tuples.
func c03NumIf[V univers.Version[V], VR univers.VersionRange[V]](e univers.Ecosystem[V, VR], a, b string) {
	vv.Assume(runsOK(a))
	vv.Assume(runsOK(b))
	va, ea := e.NewVersion(a)
	vv.Assume(ea == nil)
	vb, eb := e.NewVersion(b)
	vv.Assume(eb == nil)
	vv.Reached()
	vv.Assert(sign(va.Compare(vb)) == numTupleCmp(a, b), "C03: numeric components do not order as integer tuples")
}

// c03Mark: base+marker, if accepted, is strictly older (dir=-1) or newer (dir=+1) than base.
func c03Mark[V univers.Version[V], VR univers.VersionRange[V]](e univers.Ecosystem[V, VR], base, marker string, dir int) {
	vv.Assume(runsOK(base))
	vb, eb := e.NewVersion(base)
	vv.Assume(eb == nil)
	vm, em := e.NewVersion(base + marker)
	vv.Assume(em == nil)
	vv.Reached()
	vv.Assume(!vv.Known("KF-C03-gem-dotted-prerelease", c03GemDotted(e.Name(), marker)))
	vv.Assert(sign(vm.Compare(vb)) == dir, "C03: marked version is not on the documented side of the unmarked one")
	vv.Assert(sign(vb.Compare(vm)) == -dir, "C03: marked version is not on the documented side of the unmarked one (reverse)")
}

func c03GemDotted(eco, marker string) bool {
	return eco == "gem" && len(marker) > 0 && marker[0] == '.'
}
