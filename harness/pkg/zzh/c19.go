package zzh

import (
	"strings"

	"github.com/alowayed/go-univers/pkg/spec/vers"
	"github.com/alowayed/go-univers/pkg/univers"
	vv "github.com/alowayed/go-univers/pkg/zzvv"
)

// C19 — purity and safety for concurrent use. Shared values are built first; after vv.Epoch()
// every operation runs under the write monitor (a store to memory allocated before the epoch, or
// to a package-level variable, is reported), and twice in a row with equal results required.
// Natively (replay, -race) vv.Concurrently runs the operations in two goroutines.

func b2i(b bool) int {
	if b {
		return 1
	}
	return 0
}

func c19Ops[V univers.Version[V], VR univers.VersionRange[V]](e univers.Ecosystem[V, VR], a, b, r string) {
	va, ea := e.NewVersion(a)
	vv.Assume(ea == nil)
	vb, eb := e.NewVersion(b)
	vv.Assume(eb == nil)
	vr, er := e.NewVersionRange(r)
	vv.Assume(er == nil)
	vv.Reached()
	vv.Epoch()
	vv.Concurrently(func() {
		x := va.Compare(vb)
		y := b2i(vr.Contains(va))
		z := len(va.String()) + len(vr.String())
		v2, e2 := e.NewVersion(a)
		w := 2
		if e2 == nil {
			w = v2.Compare(vb)
		}
		r2, e3 := e.NewVersionRange(r)
		u := 2
		if e3 == nil {
			u = b2i(r2.Contains(vb))
		}
		vv.Observe(x)
		vv.Observe(y)
		vv.Observe(z)
		vv.Observe(w)
		vv.Observe(u)
	})
	// history independence: the same calls again return the same results
	x1, y1, z1 := va.Compare(vb), vr.Contains(va), len(va.String())+len(vr.String())
	x2, y2, z2 := va.Compare(vb), vr.Contains(va), len(va.String())+len(vr.String())
	vv.Assert(x1 == x2, "C19: Compare returns a different result on a second call")
	vv.Assert(y1 == y2, "C19: Contains returns a different result on a second call")
	vv.Assert(z1 == z2, "C19: String returns a different result on a second call")
}

func C19Vers(r, v string) {
	vv.Epoch()
	vv.Concurrently(func() {
		ok, err := vers.Contains(r, v)
		vv.Observe(b2i(ok))
		vv.Observe(b2i(err == nil))
	})
	ok1, err1 := vers.Contains(r, v)
	ok2, err2 := vers.Contains(r, v)
	vv.Assert(sameOutcome(ok1, err1, ok2, err2), "C19: vers.Contains returns a different result on a second call")
}

// c19Hist: results do not depend on call history - the same calls give the same results after
// unrelated calls with other arguments (a third version c, a second range).
func c19Hist[V univers.Version[V], VR univers.VersionRange[V]](e univers.Ecosystem[V, VR], a, b, r, c, r2 string) {
	va, ea := e.NewVersion(a)
	vv.Assume(ea == nil)
	vb, eb := e.NewVersion(b)
	vv.Assume(eb == nil)
	vr, er := e.NewVersionRange(r)
	vv.Assume(er == nil)
	vv.Reached()
	x1, y1, z1 := va.Compare(vb), vr.Contains(va), vr.Contains(vb)
	// unrelated traffic
	if vc, ec := e.NewVersion(c); ec == nil {
		_ = va.Compare(vc)
		_ = vc.Compare(vb)
		_ = vr.Contains(vc)
		if r3, e3 := e.NewVersionRange(r2); e3 == nil {
			_ = r3.Contains(vc)
			_ = r3.Contains(va)
			// a range parsed after others still carries its own text (C18's oracle for String)
			vv.Assert(r3.String() == strings.TrimSpace(r2), "C19: String() of a range depends on what was parsed before it")
		}
		_ = vc.String()
	}
	x2, y2, z2 := va.Compare(vb), vr.Contains(va), vr.Contains(vb)
	vv.Assert(x1 == x2, "C19: Compare returns a different result after unrelated calls")
	vv.Assert(y1 == y2, "C19: Contains returns a different result after unrelated calls")
	vv.Assert(z1 == z2, "C19: Contains returns a different result after unrelated calls")
	// fresh values built from the same texts agree with the shared ones
	va2, _ := e.NewVersion(a)
	vr2, _ := e.NewVersionRange(r)
	vv.Assert(va2.String() == strings.TrimSpace(a) && vr2.String() == strings.TrimSpace(r), "C19: String() of a freshly parsed value depends on what was parsed before it")
	vv.Assert(va2.Compare(vb) == x1, "C19: a freshly parsed version compares differently from a used one")
	vv.Assert(vr2.Contains(vb) == z1, "C19: a freshly parsed range answers differently from a used one")
}

// c19Spell: two spellings of one range parsed one after the other (either may be rejected): each
// accepted one carries its own text, whichever came first, and a third parse of the first agrees.
func c19Spell[V univers.Version[V], VR univers.VersionRange[V]](e univers.Ecosystem[V, VR], a, r, r2 string) {
	va, ea := e.NewVersion(a)
	vv.Assume(ea == nil)
	vv.Reached()
	r1, e1 := e.NewVersionRange(r)
	in1 := false
	if e1 == nil {
		in1 = r1.Contains(va)
		vv.Assert(r1.String() == strings.TrimSpace(r), "C19: String() of a range is not its own text")
	}
	if rb, eb := e.NewVersionRange(r2); eb == nil {
		vv.Assert(rb.String() == strings.TrimSpace(r2), "C19: String() of a range depends on what was parsed before it")
		_ = rb.Contains(va)
	}
	rc, ec := e.NewVersionRange(r)
	vv.Assert((ec == nil) == (e1 == nil), "C19: acceptance of a range depends on what was parsed before it")
	if ec == nil && e1 == nil {
		vv.Assert(rc.String() == strings.TrimSpace(r), "C19: String() of a range depends on what was parsed before it")
		vv.Assert(rc.Contains(va) == in1, "C19: Contains of a range depends on what was parsed before it")
	}
}

// C19VersHist: vers.Contains(r1, v1) is the same before and after vers.Contains(r2, v2).
// The first evaluation uses another spelling of r1 (an empty constraint appended, which C16 says
// changes nothing), so that it cannot share state keyed by the text with the later calls.
func C19VersHist(r1, v1, r2, v2 string) {
	ok0, e0 := vers.Contains(r1+"|", v1)
	ok1, e1 := vers.Contains(r1, v1)
	vv.Assert(sameOutcome(ok0, e0, ok1, e1), "C19: vers.Contains returns a different result on a second call")
	_, _ = vers.Contains(r2, v2)
	ok2, e2 := vers.Contains(r1, v1)
	vv.Assert(sameOutcome(ok1, e1, ok2, e2), "C19: vers.Contains returns a different result after an unrelated call")
}

// C19VersHist2: the unrelated call comes first.
func C19VersHist2(r1, v1, r2, v2 string) {
	_, _ = vers.Contains(r2, v2)
	ok1, e1 := vers.Contains(r1, v1)
	ok0, e0 := vers.Contains(r1+"|", v1)
	vv.Assert(sameOutcome(ok0, e0, ok1, e1), "C19: vers.Contains returns a different result after an unrelated call")
}
