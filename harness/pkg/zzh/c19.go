package zzh

import (
	"github.com/alowayed/go-univers/pkg/spec/vers"
	"github.com/alowayed/go-univers/pkg/univers"
	vv "github.com/alowayed/go-univers/pkg/zzvv"
)

// C19 — purity and safety for concurrent use. Shared values are built first; after vv.Epoch()
// every operation runs under the write monitor (a store to memory allocated before the epoch, or
// to a package-level variable, is reported), and twice in a row with equal results required.
// Natively (replay, -race) vv.Concurrently runs the operations in two goroutines.

func b2i(b bool) int {
	if b {
		return 1
	}
	return 0
}

func c19Ops[V univers.Version[V], VR univers.VersionRange[V]](e univers.Ecosystem[V, VR], a, b, r string) {
	va, ea := e.NewVersion(a)
	vv.Assume(ea == nil)
	vb, eb := e.NewVersion(b)
	vv.Assume(eb == nil)
	vr, er := e.NewVersionRange(r)
	vv.Assume(er == nil)
	vv.Reached()
	vv.Epoch()
	vv.Concurrently(func() {
		x := va.Compare(vb)
		y := b2i(vr.Contains(va))
		z := len(va.String()) + len(vr.String())
		v2, e2 := e.NewVersion(a)
		w := 2
		if e2 == nil {
			w = v2.Compare(vb)
		}
		r2, e3 := e.NewVersionRange(r)
		u := 2
		if e3 == nil {
			u = b2i(r2.Contains(vb))
		}
		vv.Observe(x)
		vv.Observe(y)
		vv.Observe(z)
		vv.Observe(w)
		vv.Observe(u)
	})
	// history independence: the same calls again return the same results
	x1, y1, z1 := va.Compare(vb), vr.Contains(va), len(va.String())+len(vr.String())
	x2, y2, z2 := va.Compare(vb), vr.Contains(va), len(va.String())+len(vr.String())
	vv.Assert(x1 == x2, "C19: Compare returns a different result on a second call")
	vv.Assert(y1 == y2, "C19: Contains returns a different result on a second call")
	vv.Assert(z1 == z2, "C19: String returns a different result on a second call")
}

func C19Vers(r, v string) {
	vv.Epoch()
	vv.Concurrently(func() {
		ok, err := vers.Contains(r, v)
		vv.Observe(b2i(ok))
		vv.Observe(b2i(err == nil))
	})
	ok1, err1 := vers.Contains(r, v)
	ok2, err2 := vers.Contains(r, v)
	vv.Assert(sameOutcome(ok1, err1, ok2, err2), "C19: vers.Contains returns a different result on a second call")
}
