package zzh

import (
	"github.com/alowayed/go-univers/pkg/spec/vers"
	"github.com/alowayed/go-univers/pkg/univers"
	vv "github.com/alowayed/go-univers/pkg/zzvv"
)

// C06 — every entry point is total (raw mode: every byte of the input is symbolic).

func xor(a, b bool) bool { return a != b }

func c06V[V univers.Version[V], VR univers.VersionRange[V]](e univers.Ecosystem[V, VR], s string) {
	v, err := e.NewVersion(s)
	vv.Assert(xor(vv.IsNil(v), err == nil), "C06: NewVersion returned neither/both of value and error")
	vv.Assume(err == nil)
	vv.Epoch()
	c := v.Compare(v)
	vv.Assert(c == 0, "C06: accepted version does not compare equal to itself")
	_ = v.String()
}

func c06R[V univers.Version[V], VR univers.VersionRange[V]](e univers.Ecosystem[V, VR], s, t string) {
	r, err := e.NewVersionRange(s)
	vv.Assert(xor(vv.IsNil(r), err == nil), "C06: NewVersionRange returned neither/both of value and error")
	vv.Assume(err == nil)
	_ = r.String()
	v, ev := e.NewVersion(t)
	vv.Assume(ev == nil)
	vv.Epoch()
	in := r.Contains(v)
	vv.Assert(in || !in, "C06: Contains returned")
}

// C06Vers: vers.Contains is total and returns false with every error.
func C06Vers(r, v string) {
	ok, err := vers.Contains(r, v)
	vv.Assert(err == nil || !ok, "C06: vers.Contains returned true together with an error")
}
