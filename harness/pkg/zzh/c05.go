package zzh

import (
	"strconv"

	"github.com/alowayed/go-univers/pkg/univers"
	vv "github.com/alowayed/go-univers/pkg/zzvv"
)

// C05 — shorthand range operators denote their documented intervals (DESIGN B.4).
//
// c05Spec is the spec-side table: for (ecosystem, construct, base X[.Y[.Z]][-pre]) it returns the
// range text, and the documented interval as version texts lo / hi ("" = unbounded) with
// inclusiveness flags. Sources: node-semver README "Advanced Range Syntax"; Cargo reference
// "Specifying Dependencies"; Composer "Versions and constraints"; Conan 2 "version ranges";
// RubyGems "pessimistic version constraint"; Hex "Version requirements"; PEP 440
// "Compatible release" and "Version matching"; NuGet "Version ranges"; Maven "Dependency
// Version Requirement Specification".

func num(s string) int {
	n := 0
	for i := 0; i < len(s); i++ {
		n = n*10 + int(s[i]-'0')
	}
	return n
}

func dot3(a, b, c int) string {
	return strconv.Itoa(a) + "." + strconv.Itoa(b) + "." + strconv.Itoa(c)
}
func dot2(a, b int) string { return strconv.Itoa(a) + "." + strconv.Itoa(b) }

type c05Out struct {
	rng    string
	lo, hi string
	loIncl bool
	hiIncl bool
	// skipHiPre: probes that are pre-releases of exactly hi are not decided by the documentation
	skipHiPre bool
	// skipLoPre: probes that are pre-releases of exactly lo (x-ranges) are not claimed
	skipLoPre bool
	ok        bool
}

// arity: number of components given (1..3); pre includes its leading '-' or is "".
func c05Spec(eco, construct, xs, ys, zs, pre string, arity int) c05Out {
	x, y, z := num(xs), num(ys), num(zs)
	if arity < 2 {
		y = 0
	}
	if arity < 3 {
		z = 0
	}
	base := xs
	if arity >= 2 {
		base += "." + ys
	}
	if arity >= 3 {
		base += "." + zs
	}
	full := dot3(x, y, z) // base padded with zeros
	o := c05Out{loIncl: true, ok: true}
	suffix := "" // npm documents upper bounds with "-0"
	if eco == "npm" {
		suffix = "-0"
	} else {
		o.skipHiPre = true
	}
	switch eco + " " + construct {
	case "npm caret", "cargo caret", "composer caret":
		o.rng = "^" + base + pre
		o.lo = full + pre
		switch {
		case x > 0 || arity == 1:
			o.hi = dot3(x+1, 0, 0) + suffix
		case y > 0 || arity == 2:
			o.hi = dot3(0, y+1, 0) + suffix
		default:
			o.hi = dot3(0, 0, z+1) + suffix
		}
	case "npm tilde", "cargo tilde":
		o.rng = "~" + base + pre
		o.lo = full + pre
		if arity == 1 {
			o.hi = dot3(x+1, 0, 0) + suffix
		} else {
			o.hi = dot3(x, y+1, 0) + suffix
		}
	case "composer tilde":
		// ~X.Y = >=X.Y <(X+1).0 ; ~X.Y.Z = >=X.Y.Z <X.(Y+1).0
		if arity < 2 {
			return c05Out{}
		}
		o.rng = "~" + base
		o.lo = full
		if arity == 2 {
			o.hi = dot3(x+1, 0, 0)
		} else {
			o.hi = dot3(x, y+1, 0)
		}
	case "npm xrange":
		if arity == 3 {
			return c05Out{}
		}
		o.rng = base + ".x"
		o.skipLoPre = true
		if arity == 1 {
			o.lo, o.hi = dot3(x, 0, 0), dot3(x+1, 0, 0)+"-0"
		} else {
			o.lo, o.hi = dot3(x, y, 0), dot3(x, y+1, 0)+"-0"
		}
	case "npm xrangexx", "npm xrange*":
		// node-semver: any of X, x, * stands for a missing component, also repeated ("1.x.x", "1.*")
		if arity == 3 || (construct == "xrangexx" && arity != 1) {
			return c05Out{}
		}
		o.rng = base + ".*"
		if construct == "xrangexx" {
			o.rng = base + ".x.x"
		}
		o.skipLoPre = true
		if arity == 1 {
			o.lo, o.hi = dot3(x, 0, 0), dot3(x+1, 0, 0)+"-0"
		} else {
			o.lo, o.hi = dot3(x, y, 0), dot3(x, y+1, 0)+"-0"
		}
	case "composer wildcard**", "composer wildcardxx", "composer wildcardx":
		// Composer's version parser accepts x, X, * as the wildcard, repeated after the last number
		if arity == 3 || (construct != "wildcardx" && arity != 1) {
			return c05Out{}
		}
		switch construct {
		case "wildcard**":
			o.rng = base + ".*.*"
		case "wildcardxx":
			o.rng = base + ".x.x"
		default:
			o.rng = base + ".x"
		}
		if arity == 1 {
			o.lo, o.hi = dot3(x, 0, 0), dot3(x+1, 0, 0)
		} else {
			o.lo, o.hi = dot3(x, y, 0), dot3(x, y+1, 0)
		}
	case "cargo wildcard", "composer wildcard":
		if arity == 3 {
			return c05Out{}
		}
		o.rng = base + ".*"
		if arity == 1 {
			o.lo, o.hi = dot3(x, 0, 0), dot3(x+1, 0, 0)
		} else {
			o.lo, o.hi = dot3(x, y, 0), dot3(x, y+1, 0)
		}
	case "conan tilde":
		o.rng = "~" + base
		o.lo = base
		if arity == 1 {
			o.hi = strconv.Itoa(x + 1)
		} else {
			o.hi = dot2(x, y+1)
		}
	case "conan caret":
		o.rng = "^" + base
		o.lo = base
		switch {
		case x > 0 || arity == 1:
			o.hi = strconv.Itoa(x + 1)
		case y > 0 || arity == 2:
			o.hi = dot2(0, y+1)
		default:
			o.hi = dot3(0, 0, z+1)
		}
	case "gem pessimistic":
		o.rng = "~> " + base
		o.lo = base
		switch arity {
		case 1:
			o.hi = strconv.Itoa(x + 1)
		case 2:
			o.hi = dot2(x+1, 0)
		default:
			o.hi = dot2(x, y+1)
		}
	case "hex pessimistic":
		if arity < 2 {
			return c05Out{}
		}
		o.rng = "~>" + base + pre
		o.lo = full + pre
		if arity == 2 {
			o.hi = dot3(x+1, 0, 0)
		} else {
			o.hi = dot3(x, y+1, 0)
		}
	case "pypi compatible":
		if arity < 2 {
			return c05Out{}
		}
		// the base may carry a post-release suffix: ~=2.2.post3 is >=2.2.post3, ==2.*
		o.rng = "~=" + base + pre
		o.lo = base + pre
		o.skipHiPre = false
		if arity == 2 {
			o.hi = dot2(x+1, 0)
		} else {
			o.hi = dot2(x, y+1)
		}
	case "pypi prefix":
		o.rng = "==" + base + ".*"
		o.skipHiPre = false
		switch arity {
		case 1:
			o.lo, o.hi = dot2(x, 0), dot2(x+1, 0)
		case 2:
			o.lo, o.hi = dot3(x, y, 0), dot3(x, y+1, 0)
		default:
			o.lo, o.hi = dot3(x, y, z), dot3(x, y, z+1)
		}
	default:
		return c05Out{}
	}
	return o
}

func inInterval(cLo, cHi int, hasLo, hasHi, loIncl, hiIncl bool) bool {
	if hasLo {
		if cLo < 0 || (cLo == 0 && !loIncl) {
			return false
		}
	}
	if hasHi {
		if cHi > 0 || (cHi == 0 && !hiIncl) {
			return false
		}
	}
	return true
}

// sameCoreWithPre: probe = <core>-<something> where core is the numeric core text of bound
// (bound may carry the npm "-0" suffix, which is removed first).
func preOf(probe, bound string) bool {
	core := bound
	for i := 0; i < len(core); i++ {
		if core[i] == '-' {
			core = core[:i]
			break
		}
	}
	if len(probe) <= len(core) || probe[:len(core)] != core {
		return false
	}
	return probe[len(core)] == '-'
}

func c05Short[V univers.Version[V], VR univers.VersionRange[V]](e univers.Ecosystem[V, VR], construct, xs, ys, zs, pre, probe string, arity int) {
	sp := c05Spec(e.Name(), construct, xs, ys, zs, pre, arity)
	vv.Assume(sp.ok)
	vp, ep := e.NewVersion(probe)
	vv.Assume(ep == nil)
	vlo, elo := e.NewVersion(sp.lo)
	vv.Assume(elo == nil)
	vhi, ehi := e.NewVersion(sp.hi)
	vv.Assume(ehi == nil)
	vv.Reached()
	vv.Assume(!(sp.skipHiPre && preOf(probe, sp.hi)))
	vv.Assume(!(sp.skipLoPre && preOf(probe, sp.lo)))
	vv.Assume(!vv.Known("KF-C05-hex-pessimistic-two", e.Name() == "hex" && construct == "pessimistic" && arity == 2))
	vv.Assume(!vv.Known("KF-C05-conan-caret-zero-major", e.Name() == "conan" && construct == "caret" && num(xs) == 0))
	vv.Assume(!vv.Known("KF-C05-npm-partial-base-rejected", e.Name() == "npm" && arity < 3 && construct != "xrange"))
	vv.Assume(!vv.Known("KF-C05-composer-caret-zero-zero", e.Name() == "composer" && construct == "caret" && arity == 2 && num(xs) == 0 && num(ys) == 0))
	vv.Assume(!vv.Known("KF-C05-pypi-prefix-one-component", e.Name() == "pypi" && construct == "prefix" && arity == 1))
	r, er := e.NewVersionRange(sp.rng)
	vv.Assert(er == nil, "C05: documented shorthand range is rejected")
	vv.Assume(er == nil)
	want := inInterval(vp.Compare(vlo), vp.Compare(vhi), true, true, sp.loIncl, sp.hiIncl)
	vv.Assert(r.Contains(vp) == want, "C05: shorthand range does not denote its documented interval")
}

// c05ShortHist: c05Short after the same construct has been parsed with the other arities of the
// same base (the meaning of a range text does not depend on what was parsed earlier).
func c05ShortHist[V univers.Version[V], VR univers.VersionRange[V]](e univers.Ecosystem[V, VR], construct, xs, ys, zs, pre, probe string, arity int) {
	for a := 1; a <= 3; a++ {
		if a == arity {
			continue
		}
		if sp := c05Spec(e.Name(), construct, xs, ys, zs, pre, a); sp.ok {
			if r, err := e.NewVersionRange(sp.rng); err == nil {
				_ = r.String()
			}
		}
	}
	c05Short(e, construct, xs, ys, zs, pre, probe, arity)
}

// c05Bracket: nuget / maven interval notation. kind: "[a]", "[a,b]", "(a,b)", "[a,b)", "(a,b]",
// "[a,)", "(a,)", "(,b]", "(,b)", "a" (bare).
func c05Bracket[V univers.Version[V], VR univers.VersionRange[V]](e univers.Ecosystem[V, VR], kind, a, b, probe string) {
	va, ea := e.NewVersion(a)
	vv.Assume(ea == nil)
	vb, eb := e.NewVersion(b)
	vv.Assume(eb == nil)
	vp, ep := e.NewVersion(probe)
	vv.Assume(ep == nil)
	vv.Reached()
	vv.Assume(!vv.Known("KF-C05-nuget-open-exclusive-bracket", e.Name() == "nuget" && (kind == "(a,)" || kind == "(,b)")))
	var rng string
	hasLo, hasHi, loIncl, hiIncl := true, true, true, true
	exact := false
	switch kind {
	case "[a]":
		rng, exact = "["+a+"]", true
	case "[a,b]":
		rng = "[" + a + "," + b + "]"
	case "(a,b)":
		rng, loIncl, hiIncl = "("+a+","+b+")", false, false
	case "[a,b)":
		rng, hiIncl = "["+a+","+b+")", false
	case "(a,b]":
		rng, loIncl = "("+a+","+b+"]", false
	case "[a,)":
		rng, hasHi = "["+a+",)", false
	case "(a,)":
		rng, hasHi, loIncl = "("+a+",)", false, false
	case "(,b]":
		rng, hasLo = "(,"+b+"]", false
	case "(,b)":
		rng, hasLo, hiIncl = "(,"+b+")", false, false
	case "a":
		rng = a
		if e.Name() == "nuget" {
			hasHi = false // bare version = minimum version, inclusive
		} else {
			exact = true // go-univers' documented reading for maven: exactly a
		}
	}
	r, er := e.NewVersionRange(rng)
	vv.Assert(er == nil, "C05: bracket range is rejected")
	vv.Assume(er == nil)
	var want bool
	if exact {
		want = vp.Compare(va) == 0
	} else {
		want = inInterval(vp.Compare(va), vp.Compare(vb), hasLo, hasHi, loIncl, hiIncl)
	}
	vv.Assert(r.Contains(vp) == want, "C05: bracket range does not denote the interval as written")
}

// c05Hyphen: npm / composer "A - B" = [A, B].
func c05Hyphen[V univers.Version[V], VR univers.VersionRange[V]](e univers.Ecosystem[V, VR], a, b, probe string) {
	va, ea := e.NewVersion(a)
	vv.Assume(ea == nil)
	vb, eb := e.NewVersion(b)
	vv.Assume(eb == nil)
	vp, ep := e.NewVersion(probe)
	vv.Assume(ep == nil)
	vv.Reached()
	r, er := e.NewVersionRange(a + " - " + b)
	vv.Assert(er == nil, "C05: hyphen range is rejected")
	vv.Assume(er == nil)
	vv.Assert(r.Contains(vp) == inInterval(vp.Compare(va), vp.Compare(vb), true, true, true, true), "C05: hyphen range A - B is not [A, B]")
}

// c05PypiNotPrefix: !=X.Y.* is the complement of ==X.Y.* (final/post probes).
func c05PypiNotPrefix[V univers.Version[V], VR univers.VersionRange[V]](e univers.Ecosystem[V, VR], xs, ys, probe string) {
	x, y := num(xs), num(ys)
	vp, ep := e.NewVersion(probe)
	vv.Assume(ep == nil)
	vv.Reached()
	vlo, _ := e.NewVersion(dot3(x, y, 0))
	vhi, _ := e.NewVersion(dot3(x, y+1, 0))
	vv.Assume(!vv.Known("KF-C05-pypi-not-prefix", true))
	r, er := e.NewVersionRange("!=" + xs + "." + ys + ".*")
	vv.Assert(er == nil, "C05: !=X.Y.* is rejected")
	vv.Assume(er == nil)
	vv.Assert(r.Contains(vp) == !inInterval(vp.Compare(vlo), vp.Compare(vhi), true, true, true, false), "C05: !=X.Y.* is not the complement of the prefix match")
}
