package zzh

import (
	"github.com/alowayed/go-univers/pkg/univers"
	vv "github.com/alowayed/go-univers/pkg/zzvv"
)

// C02 — comparator ranges contain exactly what Compare says.

// opSem is the meaning of a comparator given c = probe.Compare(bound) (spec-side table).
func opSem(op string, c int) bool {
	switch op {
	case "=", "==":
		return c == 0
	case "!=", "<>":
		return c != 0
	case "<", "<<":
		return c < 0
	case "<=":
		return c <= 0
	case ">", ">>":
		return c > 0
	case ">=":
		return c >= 0
	}
	panic("opSem: unknown comparator " + op)
}

func c02Cmp1[V univers.Version[V], VR univers.VersionRange[V]](e univers.Ecosystem[V, VR], op, bound, probe string) {
	vb, eb := e.NewVersion(bound)
	vv.Assume(eb == nil)
	vp, ep := e.NewVersion(probe)
	vv.Assume(ep == nil)
	vv.Reached()
	vv.Assume(!vv.Known("KF-C02-x-in-bound", c02NpmX(e.Name(), bound)))
	r, er := e.NewVersionRange(op + bound)
	vv.Assert(er == nil, "C02: comparator directly before a valid version is rejected")
	vv.Assume(er == nil)
	vv.Assert(r.Contains(vp) == opSem(op, vp.Compare(vb)), "C02: single comparator disagrees with Compare")
}

func c02NpmX(eco, bound string) bool {
	if eco != "npm" && eco != "composer" {
		return false
	}
	for i := 0; i < len(bound); i++ {
		if bound[i] == 'x' || bound[i] == 'X' || bound[i] == '*' {
			return true
		}
	}
	return false
}

func andb(a, b bool) bool { return a && b }
func orb(a, b bool) bool  { return a || b }

func c02And2[V univers.Version[V], VR univers.VersionRange[V]](e univers.Ecosystem[V, VR], op1, b1, sep, op2, b2, probe string) {
	v1, e1 := e.NewVersion(b1)
	vv.Assume(e1 == nil)
	v2, e2 := e.NewVersion(b2)
	vv.Assume(e2 == nil)
	vp, ep := e.NewVersion(probe)
	vv.Assume(ep == nil)
	vv.Reached()
	vv.Assume(!vv.Known("KF-C02-x-in-bound", orb(c02NpmX(e.Name(), b1), c02NpmX(e.Name(), b2))))
	r, er := e.NewVersionRange(op1 + b1 + sep + op2 + b2)
	vv.Assert(er == nil, "C02: AND of two comparators is rejected")
	vv.Assume(er == nil)
	vv.Assert(r.Contains(vp) == andb(opSem(op1, vp.Compare(v1)), opSem(op2, vp.Compare(v2))), "C02: AND of comparators is not the intersection")
}

func c02Or2[V univers.Version[V], VR univers.VersionRange[V]](e univers.Ecosystem[V, VR], op1, b1, sep, op2, b2, probe string) {
	v1, e1 := e.NewVersion(b1)
	vv.Assume(e1 == nil)
	v2, e2 := e.NewVersion(b2)
	vv.Assume(e2 == nil)
	vp, ep := e.NewVersion(probe)
	vv.Assume(ep == nil)
	vv.Reached()
	vv.Assume(!vv.Known("KF-C02-x-in-bound", orb(c02NpmX(e.Name(), b1), c02NpmX(e.Name(), b2))))
	r, er := e.NewVersionRange(op1 + b1 + sep + op2 + b2)
	vv.Assert(er == nil, "C02: OR of two comparators is rejected")
	vv.Assume(er == nil)
	vv.Assert(r.Contains(vp) == orb(opSem(op1, vp.Compare(v1)), opSem(op2, vp.Compare(v2))), "C02: OR of comparators is not the union")
}

// c02Three: three comparators; sep1 / sep2 are AND or OR separators. An OR separator binds weaker
// than an AND separator (a range is an OR of AND groups), so "A and B or C" is (A ∧ B) ∨ C and
// "A or B and C" is A ∨ (B ∧ C). isOr1 / isOr2 say which kind each separator is.
func c02Three[V univers.Version[V], VR univers.VersionRange[V]](e univers.Ecosystem[V, VR], op1, b1, sep1, op2, b2, sep2, op3, b3, probe string, isOr1, isOr2 bool) {
	v1, e1 := e.NewVersion(b1)
	vv.Assume(e1 == nil)
	v2, e2 := e.NewVersion(b2)
	vv.Assume(e2 == nil)
	v3, e3 := e.NewVersion(b3)
	vv.Assume(e3 == nil)
	vp, ep := e.NewVersion(probe)
	vv.Assume(ep == nil)
	vv.Reached()
	vv.Assume(!vv.Known("KF-C02-x-in-bound", orb(orb(c02NpmX(e.Name(), b1), c02NpmX(e.Name(), b2)), c02NpmX(e.Name(), b3))))
	r, er := e.NewVersionRange(op1 + b1 + sep1 + op2 + b2 + sep2 + op3 + b3)
	vv.Assert(er == nil, "C02: a list of three comparators is rejected")
	vv.Assume(er == nil)
	x, y, z := opSem(op1, vp.Compare(v1)), opSem(op2, vp.Compare(v2)), opSem(op3, vp.Compare(v3))
	vv.Assert(r.Contains(vp) == three(x, y, z, isOr1, isOr2), "C02: a list of three comparators is not the intersection / union of its parts")
}

func three(x, y, z, or1, or2 bool) bool {
	switch {
	case or1 && or2:
		return x || y || z
	case or1:
		return x || (y && z)
	case or2:
		return (x && y) || z
	}
	return x && y && z
}
