package zzh

import (
	"github.com/alowayed/go-univers/pkg/univers"
	vv "github.com/alowayed/go-univers/pkg/zzvv"
)

// C02 — comparator ranges contain exactly what Compare says.

// opSem is the meaning of a comparator given c = probe.Compare(bound) (spec-side table).
func opSem(op string, c int) bool {
	switch op {
	case "=", "==":
		return c == 0
	case "!=", "<>":
		return c != 0
	case "<", "<<":
		return c < 0
	case "<=":
		return c <= 0
	case ">", ">>":
		return c > 0
	case ">=":
		return c >= 0
	}
	panic("opSem: unknown comparator " + op)
}

func c02Cmp1[V univers.Version[V], VR univers.VersionRange[V]](e univers.Ecosystem[V, VR], op, bound, probe string) {
	vb, eb := e.NewVersion(bound)
	vv.Assume(eb == nil)
	vp, ep := e.NewVersion(probe)
	vv.Assume(ep == nil)
	vv.Reached()
	vv.Assume(!vv.Known("KF-C02-x-in-bound", c02NpmX(e.Name(), bound)))
	r, er := e.NewVersionRange(op + bound)
	vv.Assert(er == nil, "C02: comparator directly before a valid version is rejected")
	vv.Assume(er == nil)
	vv.Assert(r.Contains(vp) == opSem(op, vp.Compare(vb)), "C02: single comparator disagrees with Compare")
}

func c02NpmX(eco, bound string) bool {
	if eco != "npm" && eco != "composer" {
		return false
	}
	for i := 0; i < len(bound); i++ {
		if bound[i] == 'x' || bound[i] == 'X' || bound[i] == '*' {
			return true
		}
	}
	return false
}

func andb(a, b bool) bool { return a && b }
func orb(a, b bool) bool  { return a || b }

func c02And2[V univers.Version[V], VR univers.VersionRange[V]](e univers.Ecosystem[V, VR], op1, b1, sep, op2, b2, probe string) {
	v1, e1 := e.NewVersion(b1)
	vv.Assume(e1 == nil)
	v2, e2 := e.NewVersion(b2)
	vv.Assume(e2 == nil)
	vp, ep := e.NewVersion(probe)
	vv.Assume(ep == nil)
	vv.Reached()
	vv.Assume(!vv.Known("KF-C02-x-in-bound", orb(c02NpmX(e.Name(), b1), c02NpmX(e.Name(), b2))))
	r, er := e.NewVersionRange(op1 + b1 + sep + op2 + b2)
	vv.Assert(er == nil, "C02: AND of two comparators is rejected")
	vv.Assume(er == nil)
	vv.Assert(r.Contains(vp) == andb(opSem(op1, vp.Compare(v1)), opSem(op2, vp.Compare(v2))), "C02: AND of comparators is not the intersection")
}

func c02Or2[V univers.Version[V], VR univers.VersionRange[V]](e univers.Ecosystem[V, VR], op1, b1, sep, op2, b2, probe string) {
	v1, e1 := e.NewVersion(b1)
	vv.Assume(e1 == nil)
	v2, e2 := e.NewVersion(b2)
	vv.Assume(e2 == nil)
	vp, ep := e.NewVersion(probe)
	vv.Assume(ep == nil)
	vv.Reached()
	vv.Assume(!vv.Known("KF-C02-x-in-bound", orb(c02NpmX(e.Name(), b1), c02NpmX(e.Name(), b2))))
	r, er := e.NewVersionRange(op1 + b1 + sep + op2 + b2)
	vv.Assert(er == nil, "C02: OR of two comparators is rejected")
	vv.Assume(er == nil)
	vv.Assert(r.Contains(vp) == orb(opSem(op1, vp.Compare(v1)), opSem(op2, vp.Compare(v2))), "C02: OR of comparators is not the union")
}
