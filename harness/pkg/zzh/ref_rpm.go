package zzh

import (
	"github.com/alowayed/go-univers/pkg/univers"
	vv "github.com/alowayed/go-univers/pkg/zzvv"
)

// C11 — reference model: rpmvercmp (rpmio/rpmvercmp.c) and [epoch:]version[-release].

func isAlnum(c byte) bool { return isDig(c) || isAlpha(c) }

func rpmvercmp(a, b string) int {
	if a == b {
		return 0
	}
	i, j := 0, 0
	for i < len(a) || j < len(b) {
		for i < len(a) && !isAlnum(a[i]) && a[i] != '~' && a[i] != '^' {
			i++
		}
		for j < len(b) && !isAlnum(b[j]) && b[j] != '~' && b[j] != '^' {
			j++
		}
		at := i < len(a) && a[i] == '~'
		bt := j < len(b) && b[j] == '~'
		if at || bt {
			if !at {
				return 1
			}
			if !bt {
				return -1
			}
			i++
			j++
			continue
		}
		ac := i < len(a) && a[i] == '^'
		bc := j < len(b) && b[j] == '^'
		if ac || bc {
			if i >= len(a) {
				return -1
			}
			if j >= len(b) {
				return 1
			}
			if !ac {
				return 1
			}
			if !bc {
				return -1
			}
			i++
			j++
			continue
		}
		if !(i < len(a) && j < len(b)) {
			break
		}
		ie, je := i, j
		isnum := isDig(a[i])
		if isnum {
			for ie < len(a) && isDig(a[ie]) {
				ie++
			}
			for je < len(b) && isDig(b[je]) {
				je++
			}
		} else {
			for ie < len(a) && isAlpha(a[ie]) {
				ie++
			}
			for je < len(b) && isAlpha(b[je]) {
				je++
			}
		}
		if ie == i {
			return -1
		}
		if je == j {
			if isnum {
				return 1
			}
			return -1
		}
		var c int
		if isnum {
			c = decCmp(a[i:ie], b[j:je])
		} else {
			c = 0
			if a[i:ie] < b[j:je] {
				c = -1
			} else if a[i:ie] > b[j:je] {
				c = 1
			}
		}
		if c != 0 {
			return c
		}
		i, j = ie, je
	}
	if i >= len(a) && j >= len(b) {
		return 0
	}
	if i < len(a) {
		return 1
	}
	return -1
}

// rpmSplit: epoch digits ("" if none), version, release, hasRelease, ok.
func rpmSplit(s string) (string, string, string, bool, bool) {
	epoch := ""
	rest := s
	for i := 0; i < len(s); i++ {
		if s[i] == ':' {
			epoch = s[:i]
			rest = s[i+1:]
			break
		}
		if !isDig(s[i]) {
			break
		}
	}
	ver, rel, hasRel := rest, "", false
	for i := len(rest) - 1; i >= 0; i-- {
		if rest[i] == '-' {
			ver, rel, hasRel = rest[:i], rest[i+1:], true
			break
		}
	}
	if ver == "" {
		return "", "", "", false, false
	}
	for i := 0; i < len(rest); i++ {
		c := rest[i]
		if !(isAlnum(c) || c == '.' || c == '_' || c == '+' || c == '~' || c == '^' || c == '-') {
			return "", "", "", false, false
		}
	}
	return epoch, ver, rel, hasRel, true
}

func rpmValid(s string) bool {
	_, _, _, _, ok := rpmSplit(s)
	return ok
}

func rpmSameShape(a, b string) bool {
	_, _, _, ha, _ := rpmSplit(a)
	_, _, _, hb, _ := rpmSplit(b)
	return ha == hb
}

func rpmCompare(a, b string) int {
	ea, va, ra, _, _ := rpmSplit(a)
	eb, vb, rb, _, _ := rpmSplit(b)
	if c := decCmp(ea, eb); c != 0 {
		return c
	}
	if c := rpmvercmp(va, vb); c != 0 {
		return c
	}
	return rpmvercmp(ra, rb)
}

func c11Pair[V univers.Version[V], VR univers.VersionRange[V]](e univers.Ecosystem[V, VR], a, b string) {
	va, ea := e.NewVersion(a)
	vv.Assume(ea == nil)
	vb, eb := e.NewVersion(b)
	vv.Assume(eb == nil)
	vv.Reached()
	vv.Assume(rpmValid(a))
	vv.Assume(rpmValid(b))
	// an absent release is the empty string for rpmvercmp (the property: "then release with rpmvercmp")
	vv.Assume(!vv.Known("KF-C11-rpm-not-rpmvercmp", c11Outside(a, b)))
	vv.Assert(sign(va.Compare(vb)) == rpmCompare(a, b), "C11: order differs from rpmvercmp")
}

// Scope of KF-C11-rpm-not-rpmvercmp. go-univers compares RPM versions with a scan over (non-digit
// run, digit run) pairs instead of rpmvercmp's alpha/numeric segments. pairScan transliterates
// that scanner as it stands at the recorded finding (an existing test pins "1.2.3-1 < 1.2.3-a",
// so it cannot be repaired); the finding covers exactly the pairs on which the scanner and
// rpmvercmp disagree. On every other pair C11 requires the library to agree with rpmvercmp, so a
// change of behaviour anywhere the library is right today is still reported. (inputs only)
func c11Outside(a, b string) bool {
	return pairScanCompare(a, b) != rpmCompare(a, b)
}

func pairSep(c byte) bool { return c == '.' || c == '+' || c == '-' || c == '^' }

func pairScan(a, b string) int {
	i, j := 0, 0
	for i < len(a) || j < len(b) {
		for i < len(a) && pairSep(a[i]) {
			i++
		}
		for j < len(b) && pairSep(b[j]) {
			j++
		}
		is := i
		for i < len(a) && !isDig(a[i]) && !pairSep(a[i]) {
			i++
		}
		js := j
		for j < len(b) && !isDig(b[j]) && !pairSep(b[j]) {
			j++
		}
		an, bn := a[is:i], b[js:j]
		at := len(an) > 0 && an[0] == '~'
		bt := len(bn) > 0 && bn[0] == '~'
		if at && !bt {
			return -1
		}
		if !at && bt {
			return 1
		}
		if an < bn {
			return -1
		}
		if an > bn {
			return 1
		}
		is = i
		for i < len(a) && isDig(a[i]) {
			i++
		}
		js = j
		for j < len(b) && isDig(b[j]) {
			j++
		}
		ad, bd := a[is:i], b[js:j]
		if ad == "" && bd == "" {
			continue
		}
		if ad == "" {
			return -1
		}
		if bd == "" {
			return 1
		}
		if c := decCmp(ad, bd); c != 0 {
			return c
		}
	}
	return 0
}

func pairScanCompare(a, b string) int {
	ea, va, ra, _, _ := rpmSplit(a)
	eb, vb, rb, _, _ := rpmSplit(b)
	if c := decCmp(ea, eb); c != 0 {
		return c
	}
	if c := pairScan(va, vb); c != 0 {
		return c
	}
	return pairScan(ra, rb)
}
