package zzh

import (
	"slices"

	"github.com/alowayed/go-univers/pkg/univers"
	vv "github.com/alowayed/go-univers/pkg/zzvv"
)

// C07 — sorting returns the same versions in non-decreasing order (documented
// slices.SortFunc idiom; the CLI path is checked in package main).

func isPerm3(o0, o1, o2, a, b, c any) bool {
	return (o0 == a && o1 == b && o2 == c) || (o0 == a && o1 == c && o2 == b) ||
		(o0 == b && o1 == a && o2 == c) || (o0 == b && o1 == c && o2 == a) ||
		(o0 == c && o1 == a && o2 == b) || (o0 == c && o1 == b && o2 == a)
}

func le2(x, y int) bool { return x <= 0 && y <= 0 }

func eq3(x, y, z int) bool { return x == 0 && y == 0 && z == 0 }

func c07Sort3[V univers.Version[V], VR univers.VersionRange[V]](e univers.Ecosystem[V, VR], a, b, c string, perm int) {
	va, ea := e.NewVersion(a)
	vv.Assume(ea == nil)
	vb, eb := e.NewVersion(b)
	vv.Assume(eb == nil)
	vc, ec := e.NewVersion(c)
	vv.Assume(ec == nil)
	vv.Reached()
	vv.Assume(!c01AlpmMixedPkgrel(e.Name(), a, b, c))
	vv.Assume(!vv.Known("KF-C01-alpm-direct-suffix-heuristic", alpmGlued(e.Name(), a, b, c)))
	vs := []V{va, vb, vc}
	slices.SortFunc(vs, func(x, y V) int { return x.Compare(y) })
	vv.Assert(isPerm3(any(vs[0]), any(vs[1]), any(vs[2]), any(va), any(vb), any(vc)), "C07: sorted output is not a permutation of the input versions")
	vv.Assert(le2(vs[0].Compare(vs[1]), vs[1].Compare(vs[2])), "C07: sorted output is not in non-decreasing order")
	// every ordering of the same inputs yields the same sequence of equivalence classes
	var ws []V
	switch perm {
	case 0:
		ws = []V{va, vc, vb}
	case 1:
		ws = []V{vb, va, vc}
	case 2:
		ws = []V{vb, vc, va}
	case 3:
		ws = []V{vc, va, vb}
	default:
		ws = []V{vc, vb, va}
	}
	slices.SortFunc(ws, func(x, y V) int { return x.Compare(y) })
	vv.Assert(eq3(vs[0].Compare(ws[0]), vs[1].Compare(ws[1]), vs[2].Compare(ws[2])), "C07: a different input order yields a different sequence of equivalence classes")
}

// ---- library oracles for the CLI harness (package main) ----

// libCompare: -1/0/1, or 2 if either version is rejected.
func libCompare[V univers.Version[V], VR univers.VersionRange[V]](e univers.Ecosystem[V, VR], a, b string) int {
	va, ea := e.NewVersion(a)
	if ea != nil {
		return 2
	}
	vb, eb := e.NewVersion(b)
	if eb != nil {
		return 2
	}
	return va.Compare(vb)
}

// libContains: 0/1, or 2 if the range or the version is rejected.
func libContains[V univers.Version[V], VR univers.VersionRange[V]](e univers.Ecosystem[V, VR], r, v string) int {
	vr, er := e.NewVersionRange(r)
	if er != nil {
		return 2
	}
	pv, ev := e.NewVersion(v)
	if ev != nil {
		return 2
	}
	if vr.Contains(pv) {
		return 1
	}
	return 0
}

// libSort2 / libSort3: the input strings in library order, joined by "\x00"; "\x01" on rejection.
func libSort3[V univers.Version[V], VR univers.VersionRange[V]](e univers.Ecosystem[V, VR], a, b, c string) string {
	va, ea := e.NewVersion(a)
	if ea != nil {
		return "\x01"
	}
	vb, eb := e.NewVersion(b)
	if eb != nil {
		return "\x01"
	}
	vc, ec := e.NewVersion(c)
	if ec != nil {
		return "\x01"
	}
	vs := []V{va, vb, vc}
	slices.SortFunc(vs, func(x, y V) int { return x.Compare(y) })
	return vs[0].String() + "\x00" + vs[1].String() + "\x00" + vs[2].String()
}
