package zzh

import (
	"strings"

	"github.com/alowayed/go-univers/pkg/univers"
	vv "github.com/alowayed/go-univers/pkg/zzvv"
)

// C09 — reference model: packaging.version (PEP 440) _cmpkey, for the grammar
// [N!]N(.N)*[[.]{a|b|c|rc|alpha|beta}N][[.]{post|rev|r}N][[.]devN][+local].

type pepVer struct {
	epoch    string
	rel      []string
	hasPre   bool
	preL     int // 0 a, 1 b, 2 rc
	preN     string
	hasPost  bool
	postN    string
	hasDev   bool
	devN     string
	hasLocal bool
	local    string
}

func digitsAt(s string, i int) int {
	j := i
	for j < len(s) && isDig(s[j]) {
		j++
	}
	return j
}

func hasWordAt(s string, i int, w string) bool {
	return i+len(w) <= len(s) && s[i:i+len(w)] == w
}

func pepParse(s string) (pepVer, bool) {
	var v pepVer
	s = strings.ToLower(s)
	i := 0
	// epoch
	j := digitsAt(s, 0)
	if j > 0 && j < len(s) && s[j] == '!' {
		v.epoch = s[:j]
		i = j + 1
	}
	// release
	for {
		j = digitsAt(s, i)
		if j == i {
			return v, false
		}
		v.rel = append(v.rel, s[i:j])
		i = j
		if i+1 < len(s) && s[i] == '.' && isDig(s[i+1]) {
			i++
			continue
		}
		break
	}
	sep := func() {
		if i < len(s) && s[i] == '.' {
			i++
		}
	}
	// pre
	save := i
	sep()
	matched := false
	for _, w := range []struct {
		w string
		l int
	}{{"alpha", 0}, {"beta", 1}, {"rc", 2}, {"a", 0}, {"b", 1}, {"c", 2}} {
		if hasWordAt(s, i, w.w) {
			k := digitsAt(s, i+len(w.w))
			if k > i+len(w.w) {
				v.hasPre, v.preL, v.preN = true, w.l, s[i+len(w.w):k]
				i = k
				matched = true
			}
			break
		}
	}
	if !matched {
		i = save
	}
	// post
	save = i
	sep()
	matched = false
	for _, w := range []string{"post", "rev", "r"} {
		if hasWordAt(s, i, w) {
			k := digitsAt(s, i+len(w))
			if k > i+len(w) {
				v.hasPost, v.postN = true, s[i+len(w):k]
				i = k
				matched = true
			}
			break
		}
	}
	if !matched {
		i = save
	}
	// dev
	save = i
	sep()
	if hasWordAt(s, i, "dev") {
		k := digitsAt(s, i+3)
		if k > i+3 {
			v.hasDev, v.devN = true, s[i+3:k]
			i = k
		} else {
			i = save
		}
	} else {
		i = save
	}
	if i < len(s) && s[i] == '+' {
		v.hasLocal, v.local = true, s[i+1:]
		i = len(s)
		if v.local == "" {
			return v, false
		}
	}
	return v, i == len(s)
}

func pepRelCmp(a, b []string) int {
	n := len(a)
	if len(b) > n {
		n = len(b)
	}
	for i := 0; i < n; i++ {
		x, y := "0", "0"
		if i < len(a) {
			x = a[i]
		}
		if i < len(b) {
			y = b[i]
		}
		if c := decCmp(x, y); c != 0 {
			return c
		}
	}
	return 0
}

// pre key class: -1 = -inf (dev release of the bare version), +1 = +inf (no pre), 0 = (letter, n)
func pepPreClass(v pepVer) int {
	if !v.hasPre && !v.hasPost && v.hasDev {
		return -1
	}
	if !v.hasPre {
		return 1
	}
	return 0
}

func pepLocalCmp(a, b string) int {
	i, j := 0, 0
	for i < len(a) && j < len(b) {
		ie, je := i, j
		for ie < len(a) && a[ie] != '.' && a[ie] != '-' && a[ie] != '_' {
			ie++
		}
		for je < len(b) && b[je] != '.' && b[je] != '-' && b[je] != '_' {
			je++
		}
		x, y := a[i:ie], b[j:je]
		xn, yn := allDigits(x), allDigits(y)
		switch {
		case xn && yn:
			if c := decCmp(x, y); c != 0 {
				return c
			}
		case xn:
			return 1
		case yn:
			return -1
		default:
			if x < y {
				return -1
			}
			if x > y {
				return 1
			}
		}
		i, j = ie+1, je+1
	}
	if i < len(a) {
		return 1
	}
	if j < len(b) {
		return -1
	}
	return 0
}

func pepCmp(a, b pepVer) int {
	if c := decCmp(a.epoch, b.epoch); c != 0 {
		return c
	}
	if c := pepRelCmp(a.rel, b.rel); c != 0 {
		return c
	}
	ca, cb := pepPreClass(a), pepPreClass(b)
	if ca != cb {
		return sign(ca - cb)
	}
	if ca == 0 {
		if a.preL != b.preL {
			return sign(a.preL - b.preL)
		}
		if c := decCmp(a.preN, b.preN); c != 0 {
			return c
		}
	}
	// post: none = -inf
	if a.hasPost != b.hasPost {
		if a.hasPost {
			return 1
		}
		return -1
	}
	if a.hasPost {
		if c := decCmp(a.postN, b.postN); c != 0 {
			return c
		}
	}
	// dev: none = +inf
	if a.hasDev != b.hasDev {
		if a.hasDev {
			return -1
		}
		return 1
	}
	if a.hasDev {
		if c := decCmp(a.devN, b.devN); c != 0 {
			return c
		}
	}
	// local: none = -inf
	if a.hasLocal != b.hasLocal {
		if a.hasLocal {
			return 1
		}
		return -1
	}
	if a.hasLocal {
		return pepLocalCmp(a.local, b.local)
	}
	return 0
}

func pepCompare(a, b string) int {
	va, _ := pepParse(a)
	vb, _ := pepParse(b)
	return pepCmp(va, vb)
}

func pepValid(s string) bool {
	_, ok := pepParse(s)
	return ok
}

func c09Pair[V univers.Version[V], VR univers.VersionRange[V]](e univers.Ecosystem[V, VR], a, b string) {
	va, ea := e.NewVersion(a)
	vv.Assume(ea == nil)
	vb, eb := e.NewVersion(b)
	vv.Assume(eb == nil)
	vv.Reached()
	vv.Assume(pepValid(a))
	vv.Assume(pepValid(b))
	vv.Assume(!vv.Known("KF-C09-pypi-local-label-ignored", c09Scope(a, b)))
	vv.Assert(sign(va.Compare(vb)) == pepCompare(a, b), "C09: order differs from PEP 440 (packaging.version)")
}

// c09Scope: the library ignores local version labels, i.e. it orders a and b as PEP 440 orders their
// public parts. The finding covers exactly the pairs where that differs from the PEP 440 order of
// the full versions (equal public versions whose local labels differ). (inputs only)
func c09Scope(a, b string) bool {
	if !hasPlus(a) && !hasPlus(b) {
		return false
	}
	return pepCompare(a, b) != pepCompare(stripLocal(a), stripLocal(b))
}

func stripLocal(s string) string {
	for i := 0; i < len(s); i++ {
		if s[i] == '+' {
			return s[:i]
		}
	}
	return s
}

func hasPlus(s string) bool {
	for i := 0; i < len(s); i++ {
		if s[i] == '+' {
			return true
		}
	}
	return false
}
