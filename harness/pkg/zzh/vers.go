package zzh

import (
	"strings"

	"github.com/alowayed/go-univers/pkg/ecosystem/alpine"
	"github.com/alowayed/go-univers/pkg/ecosystem/cargo"
	"github.com/alowayed/go-univers/pkg/ecosystem/debian"
	"github.com/alowayed/go-univers/pkg/ecosystem/gem"
	"github.com/alowayed/go-univers/pkg/ecosystem/golang"
	"github.com/alowayed/go-univers/pkg/ecosystem/maven"
	"github.com/alowayed/go-univers/pkg/ecosystem/npm"
	"github.com/alowayed/go-univers/pkg/ecosystem/nuget"
	"github.com/alowayed/go-univers/pkg/ecosystem/pypi"
	"github.com/alowayed/go-univers/pkg/ecosystem/rpm"
	"github.com/alowayed/go-univers/pkg/ecosystem/semver"
	"github.com/alowayed/go-univers/pkg/spec/vers"
	"github.com/alowayed/go-univers/pkg/univers"
	vv "github.com/alowayed/go-univers/pkg/zzvv"
)

// Routing table VERS scheme -> ecosystem (spec side, DESIGN B.5).
func schemeEco(scheme string) string {
	switch scheme {
	case "deb":
		return "debian"
	case "generic":
		return "semver"
	case "alpine", "cargo", "gem", "golang", "maven", "npm", "nuget", "pypi", "rpm":
		return scheme
	}
	return ""
}

func satOp(op string, c int) bool { return opSem(op, c) }

func isLower(op string) bool { return op == ">" || op == ">=" }
func isUpper(op string) bool { return op == "<" || op == "<=" }

// versSem: denotation of a VERS range whose constraint versions are strictly ascending, from the
// comparator sequence and c[i] = sign(probe.Compare(v_i)) (spec side: VERS "version range
// specification": optional leading upper bound, lower/upper pairs, optional trailing lower bound,
// '=' points, '!=' exclusions).
func versSem(ops []string, c []int) bool {
	excluded, eqHit, inside := false, false, false
	var bo []string
	var bc []int
	for i, op := range ops {
		switch {
		case op == "!=":
			if c[i] == 0 {
				excluded = true
			}
		case op == "=":
			if c[i] == 0 {
				eqHit = true
			}
		default:
			bo = append(bo, op)
			bc = append(bc, c[i])
		}
	}
	j := 0
	if len(bo) > 0 && isUpper(bo[0]) {
		if satOp(bo[0], bc[0]) {
			inside = true
		}
		j = 1
	}
	for j+1 < len(bo) {
		if satOp(bo[j], bc[j]) && satOp(bo[j+1], bc[j+1]) {
			inside = true
		}
		j += 2
	}
	if j < len(bo) {
		if satOp(bo[j], bc[j]) {
			inside = true
		}
	}
	onlyExcl := true
	for _, op := range ops {
		if op != "!=" {
			onlyExcl = false
		}
	}
	if onlyExcl {
		return !excluded
	}
	return !excluded && (eqHit || inside)
}

func ascending(c12, c23, c34 int, k int) bool {
	if k >= 2 && c12 >= 0 {
		return false
	}
	if k >= 3 && c23 >= 0 {
		return false
	}
	if k >= 4 && c34 >= 0 {
		return false
	}
	return true
}

// c04Vers: ops is a space separated comparator list (k = 1..4 entries), v1..vk the versions.
func c04Vers[V univers.Version[V], VR univers.VersionRange[V]](e univers.Ecosystem[V, VR], scheme, ops, v1, v2, v3, v4, probe string) {
	ol := strings.Split(ops, " ")
	k := len(ol)
	vs := []string{v1, v2, v3, v4}[:k]
	var pv []V
	for _, s := range vs {
		p, err := e.NewVersion(s)
		vv.Assume(err == nil)
		pv = append(pv, p)
	}
	pp, ep := e.NewVersion(probe)
	vv.Assume(ep == nil)
	vv.Reached()
	c12, c23, c34 := -1, -1, -1
	if k >= 2 {
		c12 = pv[0].Compare(pv[1])
	}
	if k >= 3 {
		c23 = pv[1].Compare(pv[2])
	}
	if k >= 4 {
		c34 = pv[2].Compare(pv[3])
	}
	vv.Assume(ascending(c12, c23, c34, k))
	text := "vers:" + scheme + "/"
	for i := range vs {
		if i > 0 {
			text += "|"
		}
		text += ol[i] + vs[i]
	}
	c := make([]int, k)
	for i := range vs {
		c[i] = sign(pp.Compare(pv[i]))
	}
	vv.Assume(!vv.Known("KF-C04-grouping-heuristics", c04BadGrouping(ol)))
	vv.Assume(!vv.Known("KF-C02-x-in-bound", c02NpmX(e.Name(), v1+v2+v3+v4)))
	got, err := vers.Contains(text, probe)
	vv.Assert(err == nil, "C04: well-formed VERS range with valid versions is rejected")
	vv.Assume(err == nil)
	want := versSem(ol, c)
	if e.Name() == "pypi" && pepIsPre(probe) {
		// PEP 440 default: a pre-/dev-release probe is excluded unless a constraint names one
		named := false
		for _, s := range vs {
			if pepIsPre(s) {
				named = true
			}
		}
		if !named {
			want = false
		}
	}
	vv.Assert(got == want, "C04: vers.Contains differs from the union-of-intervals denotation")
}

// pepIsPre: the version (reference parse) has a pre-release or dev segment.
func pepIsPre(s string) bool {
	v, ok := pepParse(s)
	return ok && (v.hasPre || v.hasDev)
}

// c04BadGrouping: the bound comparators of the range (ignoring = and !=) are not one of the shapes
// the grouping code evaluates as VERS says: no bound, a single bound, or one or more complete
// lower/upper pairs in that order (L U, L U L U, ...). A leading upper bound before a lower one
// and a trailing unpaired lower bound after a pair are the mis-evaluated shapes. (inputs only)
func c04BadGrouping(ops []string) bool {
	var b []string
	for _, op := range ops {
		if isLower(op) || isUpper(op) {
			b = append(b, op)
		}
	}
	if len(b) <= 1 {
		return false
	}
	if len(b)%2 != 0 {
		return true
	}
	for i, op := range b {
		if i%2 == 0 && !isLower(op) {
			return true
		}
		if i%2 == 1 && !isUpper(op) {
			return true
		}
	}
	return false
}

// C04Star: vers:<scheme>/* contains every valid version.
func c04Star[V univers.Version[V], VR univers.VersionRange[V]](e univers.Ecosystem[V, VR], scheme, probe string) {
	_, ep := e.NewVersion(probe)
	vv.Assume(ep == nil)
	got, err := vers.Contains("vers:"+scheme+"/*", probe)
	vv.Assert(err == nil && got, "C04: vers:<scheme>/* does not contain a valid version")
}

// ---------------------------------------------------------------------------------------------
// C16 — order, whitespace, duplicates, empty constraints

func sameOutcome(ok1 bool, e1 error, ok2 bool, e2 error) bool {
	return ok1 == ok2 && (e1 == nil) == (e2 == nil)
}

// c16Inv: parts = the k constraints (each op+version) of the base range; tr describes the
// transformation: "perm:2,0,1" | "dup:i" | "empty:i" (insert an empty constraint before index i,
// i==k appends) | "ws:i:j" (insert the byte w before byte j of constraint i; j may equal its length) |
// "dupws:i:j" (append a copy of constraint i with w inserted before its byte j).
func c16Inv[V univers.Version[V], VR univers.VersionRange[V]](e univers.Ecosystem[V, VR], scheme, ops, v1, v2, v3, v4, probe, tr, w string) {
	ol := strings.Split(ops, " ")
	k := len(ol)
	vs := []string{v1, v2, v3, v4}[:k]
	var pv []V
	parts := make([]string, k)
	for i, s := range vs {
		p, err := e.NewVersion(s)
		vv.Assume(err == nil)
		pv = append(pv, p)
		parts[i] = ol[i] + s
	}
	// the VERS uniqueness rule: versions pairwise non-equivalent
	for i := 0; i < k; i++ {
		for j := i + 1; j < k; j++ {
			vv.Assume(pv[i].Compare(pv[j]) != 0)
		}
	}
	vv.Reached()
	base := "vers:" + scheme + "/" + strings.Join(parts, "|")
	var tparts []string
	f := strings.Split(tr, ":")
	switch f[0] {
	case "perm":
		for _, ix := range strings.Split(f[1], ",") {
			tparts = append(tparts, parts[atoi(ix)])
		}
	case "dup":
		i := atoi(f[1])
		tparts = append(tparts, parts...)
		tparts = append(tparts, parts[i])
	case "empty":
		i := atoi(f[1])
		tparts = append(tparts, parts[:i]...)
		tparts = append(tparts, "")
		tparts = append(tparts, parts[i:]...)
	case "ws":
		i, j := atoi(f[1]), atoi(f[2])
		tparts = append(tparts, parts...)
		tparts[i] = parts[i][:j] + w + parts[i][j:]
	case "dupws":
		// a duplicate that is spelled with an insignificant space inside it
		i, j := atoi(f[1]), atoi(f[2])
		tparts = append(tparts, parts...)
		tparts = append(tparts, parts[i][:j]+w+parts[i][j:])
	}
	other := "vers:" + scheme + "/" + strings.Join(tparts, "|")
	ok1, e1 := vers.Contains(base, probe)
	ok2, e2 := vers.Contains(other, probe)
	vv.Assert(sameOutcome(ok1, e1, ok2, e2), "C16: vers.Contains changes under reordering / whitespace / duplication / empty constraints")
}

func atoi(s string) int {
	n := 0
	for i := 0; i < len(s); i++ {
		n = n*10 + int(s[i]-'0')
	}
	return n
}

// ---------------------------------------------------------------------------------------------
// C17 — validation and routing

func versionOK(scheme, v string) bool {
	var err error
	switch scheme {
	case "alpine":
		_, err = (&alpine.Ecosystem{}).NewVersion(v)
	case "cargo":
		_, err = (&cargo.Ecosystem{}).NewVersion(v)
	case "deb":
		_, err = (&debian.Ecosystem{}).NewVersion(v)
	case "gem":
		_, err = (&gem.Ecosystem{}).NewVersion(v)
	case "generic":
		_, err = (&semver.Ecosystem{}).NewVersion(v)
	case "golang":
		_, err = (&golang.Ecosystem{}).NewVersion(v)
	case "maven":
		_, err = (&maven.Ecosystem{}).NewVersion(v)
	case "npm":
		_, err = (&npm.Ecosystem{}).NewVersion(v)
	case "nuget":
		_, err = (&nuget.Ecosystem{}).NewVersion(v)
	case "pypi":
		_, err = (&pypi.Ecosystem{}).NewVersion(v)
	case "rpm":
		_, err = (&rpm.Ecosystem{}).NewVersion(v)
	default:
		return false
	}
	return err == nil
}

func stripSpaces(s string) string {
	out := ""
	for i := 0; i < len(s); i++ {
		if !isWS(s[i]) {
			out += s[i : i+1]
		}
	}
	return out
}

const (
	meOK = iota
	meMust
	meSkip // lone '*': answered before scheme and version are looked at (not covered)
)

// mustError: spec-side predicate of C17 — the malformations for which vers.Contains must return
// an error (and false).
func mustError(text, version string) int {
	if len(text) < 5 || text[:5] != "vers:" {
		return meMust
	}
	for i := 0; i < len(text); i++ {
		if text[i] < 32 || text[i] > 126 {
			return meMust
		}
	}
	rest := text[5:]
	slash := -1
	for i := 0; i < len(rest); i++ {
		if rest[i] == '/' {
			slash = i
			break
		}
	}
	if slash < 0 {
		return meMust
	}
	scheme := rest[:slash]
	cons := rest[slash+1:]
	if scheme == "" {
		return meMust
	}
	for i := 0; i < len(scheme); i++ {
		ch := scheme[i]
		if !((ch >= 'a' && ch <= 'z') || (ch >= '0' && ch <= '9')) {
			return meMust
		}
	}
	if cons == "" {
		return meMust
	}
	list := strings.Split(cons, "|")
	stars, others := 0, 0
	for _, c := range list {
		t := stripSpaces(c)
		if t == "*" {
			stars++
		} else if t != "" {
			others++
		}
	}
	if stars > 1 || (stars == 1 && others > 0) {
		return meMust
	}
	if stars == 1 {
		return meSkip
	}
	if others == 0 {
		return meMust // no constraint at all
	}
	if schemeEco(scheme) == "" {
		return meMust
	}
	for _, c := range list {
		t := stripSpaces(c)
		if t == "" {
			continue
		}
		op := ""
		switch {
		case len(t) >= 2 && (t[:2] == ">=" || t[:2] == "<=" || t[:2] == "!="):
			op = t[:2]
		case t[0] == '>' || t[0] == '<' || t[0] == '=':
			op = t[:1]
		}
		if op == "" {
			return meMust
		}
		ver := t[len(op):]
		if ver == "" {
			return meMust
		}
		if !versionOK(scheme, ver) {
			return meMust
		}
	}
	if !versionOK(scheme, version) {
		return meMust
	}
	return meOK
}

// C17Corrupt: kind 0 = delete the byte at pos, 1 = replace it by w, 2 = insert w before pos.
func C17Corrupt(text, version string, kind, pos int, w string) {
	var t string
	switch kind {
	case 0:
		t = text[:pos] + text[pos+1:]
	case 1:
		t = text[:pos] + w + text[pos+1:]
	default:
		t = text[:pos] + w + text[pos:]
	}
	vv.Reached()
	me := mustError(t, version)
	vv.Assume(me == meMust)
	ok, err := vers.Contains(t, version)
	vv.Assert(err != nil && !ok, "C17: malformed VERS input is not rejected with (false, error)")
}

// C17Bad: an arbitrary (raw) range text.
func C17Bad(text, version string) {
	vv.Reached()
	me := mustError(text, version)
	vv.Assume(me == meMust)
	ok, err := vers.Contains(text, version)
	vv.Assert(err != nil && !ok, "C17: malformed VERS input is not rejected with (false, error)")
}

// c17Route: a single-constraint range of a scheme is evaluated with that scheme's ecosystem.
func c17Route[V univers.Version[V], VR univers.VersionRange[V]](e univers.Ecosystem[V, VR], scheme, op, a, v string) {
	pa, ea := e.NewVersion(a)
	pv, ev := e.NewVersion(v)
	text := "vers:" + scheme + "/" + op + a
	ok, err := vers.Contains(text, v)
	vv.Assert((err == nil) == (ea == nil && ev == nil), "C17: scheme is not evaluated with its ecosystem's notion of a valid version")
	vv.Assume(ea == nil)
	vv.Assume(ev == nil)
	vv.Reached()
	vv.Assume(err == nil)
	vv.Assume(!vv.Known("KF-C02-x-in-bound", c02NpmX(e.Name(), a)))
	// PEP 440 default: a pre-release probe is excluded unless the range names a pre-release (C04's subject)
	vv.Assume(!(scheme == "pypi" && (pepIsPre(v) || pepIsPre(a))))
	vv.Assert(ok == opSem(op, pv.Compare(pa)), "C17: scheme is not evaluated with its ecosystem's order")
}

// c04VersN: like c04Vers for up to 8 constraints; the versions come as one text joined by '|'.
func c04VersN[V univers.Version[V], VR univers.VersionRange[V]](e univers.Ecosystem[V, VR], scheme, ops, versions, probe string) {
	ol := strings.Split(ops, " ")
	vs := strings.Split(versions, "|")
	vv.Assume(len(ol) == len(vs))
	var pv []V
	for _, s := range vs {
		p, err := e.NewVersion(s)
		vv.Assume(err == nil)
		pv = append(pv, p)
	}
	pp, ep := e.NewVersion(probe)
	vv.Assume(ep == nil)
	vv.Reached()
	for i := 0; i+1 < len(pv); i++ {
		vv.Assume(pv[i].Compare(pv[i+1]) < 0)
	}
	text := "vers:" + scheme + "/"
	for i := range vs {
		if i > 0 {
			text += "|"
		}
		text += ol[i] + vs[i]
	}
	c := make([]int, len(vs))
	for i := range vs {
		c[i] = sign(pp.Compare(pv[i]))
	}
	vv.Assume(!vv.Known("KF-C04-grouping-heuristics", c04BadGrouping(ol)))
	got, err := vers.Contains(text, probe)
	vv.Assert(err == nil, "C04: well-formed VERS range with valid versions is rejected")
	vv.Assume(err == nil)
	vv.Assert(got == versSem(ol, c), "C04: vers.Contains differs from the union-of-intervals denotation")
}
