package zzh

import (
	"github.com/alowayed/go-univers/pkg/univers"
	vv "github.com/alowayed/go-univers/pkg/zzvv"
)

// C18 — text is kept; re-parsing and outer whitespace change nothing.

// trimWS mirrors "up to surrounding whitespace" for ASCII white space.
func trimWS(s string) string {
	i, j := 0, len(s)
	for i < j && isWS(s[i]) {
		i++
	}
	for j > i && isWS(s[j-1]) {
		j--
	}
	return s[i:j]
}

func isWS(c byte) bool { return c == ' ' || c == '\t' || c == '\n' || c == '\r' || c == '\v' || c == '\f' }

func c18V[V univers.Version[V], VR univers.VersionRange[V]](e univers.Ecosystem[V, VR], s, padL, padR, t string) {
	v, err := e.NewVersion(s)
	vp, errp := e.NewVersion(padL + s + padR)
	vv.Assert((err == nil) == (errp == nil), "C18: surrounding whitespace changes acceptance of a version")
	vv.Assume(err == nil)
	vv.Assume(errp == nil)
	vv.Assert(trimWS(v.String()) == trimWS(s), "C18: String() is not the input text up to surrounding whitespace")
	vv.Assert(trimWS(vp.String()) == trimWS(s), "C18: String() of a padded input is not the input text up to surrounding whitespace")
	v2, err2 := e.NewVersion(v.String())
	vv.Assert(err2 == nil, "C18: re-parsing String() fails")
	vv.Assume(err2 == nil)
	vv.Assert(v.Compare(v2) == 0, "C18: re-parsed version does not compare equal")
	vv.Assert(v.Compare(vp) == 0, "C18: padded version does not compare equal to the unpadded one")
	vt, et := e.NewVersion(t)
	vv.Assume(et == nil)
	vv.Assert(v.Compare(vt) == vp.Compare(vt), "C18: padding changes a comparison result")
	vv.Assert(vt.Compare(v) == vt.Compare(vp), "C18: padding changes a comparison result (reverse)")
	vv.Assert(v2.Compare(vt) == v.Compare(vt), "C18: re-parsing changes a comparison result")
}

func c18R[V univers.Version[V], VR univers.VersionRange[V]](e univers.Ecosystem[V, VR], s, padL, padR, t string) {
	r, err := e.NewVersionRange(s)
	rp, errp := e.NewVersionRange(padL + s + padR)
	vv.Assert((err == nil) == (errp == nil), "C18: surrounding whitespace changes acceptance of a range")
	vv.Assume(err == nil)
	vv.Assume(errp == nil)
	vv.Assert(trimWS(r.String()) == trimWS(s), "C18: range String() is not the input text up to surrounding whitespace")
	r2, err2 := e.NewVersionRange(r.String())
	vv.Assert(err2 == nil, "C18: re-parsing range String() fails")
	vv.Assume(err2 == nil)
	vt, et := e.NewVersion(t)
	vv.Assume(et == nil)
	in := r.Contains(vt)
	vv.Assert(rp.Contains(vt) == in, "C18: padding changes a containment result")
	vv.Assert(r2.Contains(vt) == in, "C18: re-parsing a range changes a containment result")
}
