package zzh

import (
	"github.com/alowayed/go-univers/pkg/univers"
	vv "github.com/alowayed/go-univers/pkg/zzvv"
)

// C14 — reference model: apk-tools version comparison for well-formed versions
// digits{.digits}[letter]{_suffix[digits]}[-rN] with equal component counts and no leading zeros
// (the rule list of the property statement; apk-tools src/version.c).

type apkVer struct {
	nums   []string
	letter string
	sufN   []string // suffix names
	sufV   []string // suffix numbers ("" = none)
	hasRev bool
	rev    string
}

func apkRank(name string) int {
	switch name {
	case "alpha":
		return 0
	case "beta":
		return 1
	case "pre":
		return 2
	case "rc":
		return 3
	case "cvs":
		return 5
	case "svn":
		return 6
	case "git":
		return 7
	case "hg":
		return 8
	case "p":
		return 9
	}
	return -1
}

const apkNoSuffix = 4

func apkParse(s string) (apkVer, bool) {
	var v apkVer
	i := 0
	for {
		j := digitsAt(s, i)
		if j == i {
			return v, false
		}
		if j-i > 1 && s[i] == '0' {
			return v, false // leading zeros are not claimed
		}
		v.nums = append(v.nums, s[i:j])
		i = j
		if i+1 < len(s) && s[i] == '.' && isDig(s[i+1]) {
			i++
			continue
		}
		break
	}
	if i < len(s) && s[i] >= 'a' && s[i] <= 'z' {
		v.letter = s[i : i+1]
		i++
	}
	for i < len(s) && s[i] == '_' {
		j := i + 1
		for j < len(s) && s[j] >= 'a' && s[j] <= 'z' {
			j++
		}
		name := s[i+1 : j]
		if apkRank(name) < 0 {
			return v, false
		}
		k := digitsAt(s, j)
		v.sufN = append(v.sufN, name)
		v.sufV = append(v.sufV, s[j:k])
		i = k
	}
	if i+2 < len(s) && s[i] == '-' && s[i+1] == 'r' {
		k := digitsAt(s, i+2)
		if k == i+2 {
			return v, false
		}
		v.hasRev, v.rev = true, s[i+2:k]
		i = k
	}
	return v, i == len(s)
}

func apkCmp(a, b apkVer) int {
	for i := range a.nums {
		if c := decCmp(a.nums[i], b.nums[i]); c != 0 {
			return c
		}
	}
	if a.letter != b.letter {
		if a.letter < b.letter {
			return -1
		}
		return 1
	}
	n := len(a.sufN)
	if len(b.sufN) > n {
		n = len(b.sufN)
	}
	for i := 0; i < n; i++ {
		ra, rb := apkNoSuffix, apkNoSuffix
		na, nb := "", ""
		if i < len(a.sufN) {
			ra, na = apkRank(a.sufN[i]), a.sufV[i]
		}
		if i < len(b.sufN) {
			rb, nb = apkRank(b.sufN[i]), b.sufV[i]
		}
		if ra != rb {
			return sign(ra - rb)
		}
		if c := decCmp(na, nb); c != 0 {
			return c
		}
	}
	return decCmp(a.rev, b.rev)
}

func apkWellFormedPair(a, b string) bool {
	va, oka := apkParse(a)
	vb, okb := apkParse(b)
	return oka && okb && len(va.nums) == len(vb.nums) && va.hasRev == vb.hasRev
}

func apkCompare(a, b string) int {
	va, _ := apkParse(a)
	vb, _ := apkParse(b)
	return apkCmp(va, vb)
}

func c14Pair[V univers.Version[V], VR univers.VersionRange[V]](e univers.Ecosystem[V, VR], a, b string) {
	va, ea := e.NewVersion(a)
	vv.Assume(ea == nil)
	vb, eb := e.NewVersion(b)
	vv.Assume(eb == nil)
	vv.Reached()
	vv.Assume(apkWellFormedPair(a, b))
	vv.Assert(sign(va.Compare(vb)) == apkCompare(a, b), "C14: order differs from apk-tools' version comparison")
}
