package zzh

import (
	"github.com/alowayed/go-univers/pkg/univers"
	vv "github.com/alowayed/go-univers/pkg/zzvv"
)

// C20 — membership depends only on the version's place in the order.

func c20Cong[V univers.Version[V], VR univers.VersionRange[V]](e univers.Ecosystem[V, VR], r, a, b string) {
	vr, er := e.NewVersionRange(r)
	vv.Assume(er == nil)
	va, ea := e.NewVersion(a)
	vv.Assume(ea == nil)
	vb, eb := e.NewVersion(b)
	vv.Assume(eb == nil)
	vv.Reached()
	vv.Assume(!c01AlpmMixedPkgrel(e.Name(), a, b, b))
	vv.Assume(!vv.Known("KF-C01-alpm-direct-suffix-heuristic", alpmGlued(e.Name(), r, a, b)))
	vv.Assume(!vv.Known("KF-C20-composer-caret-tilde-stability", composerShorthand(e.Name(), r) && (hasQualifierLetter(a) || hasQualifierLetter(b))))
	vv.Assert(congOK(va.Compare(vb), vr.Contains(va), vr.Contains(vb)), "C20: two versions that compare equal are not both in / both out of the range")
}

func congOK(ab int, ina, inb bool) bool { return ab != 0 || ina == inb }

func convexOK(ab, bc int, ina, inb, inc bool) bool {
	return !(ab <= 0 && bc <= 0 && ina && inc) || inb
}

func c20Convex[V univers.Version[V], VR univers.VersionRange[V]](e univers.Ecosystem[V, VR], r, a, b, c string) {
	vr, er := e.NewVersionRange(r)
	vv.Assume(er == nil)
	va, ea := e.NewVersion(a)
	vv.Assume(ea == nil)
	vb, eb := e.NewVersion(b)
	vv.Assume(eb == nil)
	vc, ec := e.NewVersion(c)
	vv.Assume(ec == nil)
	vv.Reached()
	vv.Assume(!c01AlpmMixedPkgrel(e.Name(), a, b, c))
	vv.Assume(!vv.Known("KF-C01-alpm-direct-suffix-heuristic", alpmGlued(e.Name(), r, a, b, c)))
	vv.Assume(!vv.Known("KF-C20-composer-caret-tilde-stability", composerShorthand(e.Name(), r) && (hasQualifierLetter(a) || hasQualifierLetter(b) || hasQualifierLetter(c))))
	vv.Assert(convexOK(va.Compare(vb), vb.Compare(vc), vr.Contains(va), vr.Contains(vb), vr.Contains(vc)), "C20: conjunctive range is not convex")
}

func composerShorthand(eco, r string) bool {
	return eco == "composer" && len(r) > 0 && (r[0] == '^' || r[0] == '~')
}

// hasQualifierLetter: a letter other than a leading v/V (stability suffixes, branch names).
func hasQualifierLetter(s string) bool {
	for i := 0; i < len(s); i++ {
		c := s[i]
		if (c >= 'a' && c <= 'z') || (c >= 'A' && c <= 'Z') {
			if i == 0 && (c == 'v' || c == 'V') {
				continue
			}
			return true
		}
	}
	return false
}
