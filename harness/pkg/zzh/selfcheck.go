package zzh

import (
	"strconv"

	"github.com/alowayed/go-univers/pkg/spec/vers"
	"github.com/alowayed/go-univers/pkg/univers"
	vv "github.com/alowayed/go-univers/pkg/zzvv"
)

// Translator validation (vx selfcheck): the same observation is computed natively and by the
// engine in concrete mode on strings harvested from the repository's own tests.

func selfCode[V univers.Version[V], VR univers.VersionRange[V]](e univers.Ecosystem[V, VR], a, b string) int {
	code := 0
	va, ea := e.NewVersion(a)
	vb, eb := e.NewVersion(b)
	if ea == nil {
		code += 1
	}
	if eb == nil {
		code += 2
	}
	if ea == nil && eb == nil {
		code += (sign(va.Compare(vb)) + 1) * 4
	}
	r, er := e.NewVersionRange(a)
	if er == nil {
		code += 16
		if eb == nil && r.Contains(vb) {
			code += 32
		}
	}
	r2, er2 := e.NewVersionRange(b)
	if er2 == nil {
		code += 64
		if ea == nil && r2.Contains(va) {
			code += 128
		}
	}
	return code
}

// vxSelfReport: native side — reports the code through the assertion message.
func vxSelfReport[V univers.Version[V], VR univers.VersionRange[V]](e univers.Ecosystem[V, VR], a, b string) {
	vv.Assert(false, strconv.Itoa(selfCode(e, a, b)))
}

// vxSelf: engine side — the engine's result must equal the native one.
func vxSelf[V univers.Version[V], VR univers.VersionRange[V]](e univers.Ecosystem[V, VR], a, b string, want int) {
	vv.Assert(selfCode(e, a, b) == want, "selfcheck: engine and native execution disagree")
}

func versCode(r, v string) int {
	ok, err := vers.Contains(r, v)
	code := 0
	if ok {
		code += 1
	}
	if err != nil {
		code += 2
	}
	return code
}

func VXSelfVersReport(r, v string) { vv.Assert(false, strconv.Itoa(versCode(r, v))) }

func VXSelfVers(r, v string, want int) {
	vv.Assert(versCode(r, v) == want, "selfcheck: engine and native execution disagree (vers)")
}
