package zzh

import (
	"strconv"
	"strings"

	"github.com/alowayed/go-univers/pkg/spec/vers"
	"github.com/alowayed/go-univers/pkg/univers"
	vv "github.com/alowayed/go-univers/pkg/zzvv"
)

// Translator validation (vx selfcheck): the same observation is computed natively and by the
// engine in concrete mode on strings harvested from the repository's own tests.

func selfCode[V univers.Version[V], VR univers.VersionRange[V]](e univers.Ecosystem[V, VR], a, b string) int {
	code := 0
	va, ea := e.NewVersion(a)
	vb, eb := e.NewVersion(b)
	if ea == nil {
		code += 1
	}
	if eb == nil {
		code += 2
	}
	if ea == nil && eb == nil {
		code += (sign(va.Compare(vb)) + 1) * 4
	}
	r, er := e.NewVersionRange(a)
	if er == nil {
		code += 16
		if eb == nil && r.Contains(vb) {
			code += 32
		}
	}
	r2, er2 := e.NewVersionRange(b)
	if er2 == nil {
		code += 64
		if ea == nil && r2.Contains(va) {
			code += 128
		}
	}
	return code
}

// vxSelfReport: native side — reports the code through the assertion message.
func vxSelfReport[V univers.Version[V], VR univers.VersionRange[V]](e univers.Ecosystem[V, VR], a, b string) {
	vv.Assert(false, strconv.Itoa(selfCode(e, a, b)))
}

// vxSelf: engine side — the engine's result must equal the native one.
func vxSelf[V univers.Version[V], VR univers.VersionRange[V]](e univers.Ecosystem[V, VR], a, b string, want int) {
	vv.Assert(selfCode(e, a, b) == want, "selfcheck: engine and native execution disagree")
}

func versCode(r, v string) int {
	ok, err := vers.Contains(r, v)
	code := 0
	if ok {
		code += 1
	}
	if err != nil {
		code += 2
	}
	return code
}

func VXSelfVersReport(r, v string) { vv.Assert(false, strconv.Itoa(versCode(r, v))) }

func VXSelfVers(r, v string, want int) {
	vv.Assert(versCode(r, v) == want, "selfcheck: engine and native execution disagree (vers)")
}

// Symbolic translator validation (vx selfcheck, "std" part): library functions the engine
// executes from source (bit operations in strings.EqualFold) or through an intrinsic are compared
// with byte-loop models over all strings of a template. flip negates the expectation: that twin
// must be reported, otherwise the lemma passed vacuously.

func lowerByte(c byte) byte {
	if c >= 'A' && c <= 'Z' {
		return c + 32
	}
	return c
}

func modelFold(a, b string) bool {
	if len(a) != len(b) {
		return false
	}
	for i := 0; i < len(a); i++ {
		if lowerByte(a[i]) != lowerByte(b[i]) {
			return false
		}
	}
	return true
}

func VXStdFold(a, b string, flip bool) {
	vv.Assert(xor(strings.EqualFold(a, b) == modelFold(a, b), flip), "selfcheck: strings.EqualFold differs from the ASCII model")
}

func modelLower(s string) string {
	b := make([]byte, len(s))
	for i := 0; i < len(s); i++ {
		b[i] = lowerByte(s[i])
	}
	return string(b)
}

func isSpaceByte(c byte) bool {
	return c == ' ' || c == '\t' || c == '\n' || c == '\v' || c == '\f' || c == '\r'
}

func modelTrimSpace(s string) string {
	i, j := 0, len(s)
	for i < j && isSpaceByte(s[i]) {
		i++
	}
	for j > i && isSpaceByte(s[j-1]) {
		j--
	}
	return s[i:j]
}

func modelIndex(s, sub string) int {
	for i := 0; i+len(sub) <= len(s); i++ {
		if s[i:i+len(sub)] == sub {
			return i
		}
	}
	return -1
}

func VXStdStrings(a, b string, flip bool) {
	ok := strings.ToLower(a) == modelLower(a)
	ok = ok && strings.TrimSpace(a) == modelTrimSpace(a)
	ok = ok && strings.Index(a, b) == modelIndex(a, b)
	ok = ok && strings.Contains(a, b) == (modelIndex(a, b) >= 0)
	ok = ok && strings.HasPrefix(a, b) == (len(a) >= len(b) && a[:len(b)] == b)
	ok = ok && strings.HasSuffix(a, b) == (len(a) >= len(b) && a[len(a)-len(b):] == b)
	vv.Assert(xor(ok, flip), "selfcheck: a strings function differs from its byte-loop model")
}

func modelAtoi(s string) (int, bool) {
	i := 0
	neg := false
	if len(s) > 0 && (s[0] == '+' || s[0] == '-') {
		neg = s[0] == '-'
		i = 1
	}
	if i == len(s) {
		return 0, false
	}
	n := 0
	for ; i < len(s); i++ {
		if s[i] < '0' || s[i] > '9' {
			return 0, false
		}
		n = n*10 + int(s[i]-'0')
	}
	if neg {
		n = -n
	}
	return n, true
}

func VXStdAtoi(a string, flip bool) {
	n, err := strconv.Atoi(a)
	m, ok := modelAtoi(a)
	good := (err == nil) == ok
	if ok && err == nil {
		good = n == m
	}
	vv.Assert(xor(good, flip), "selfcheck: strconv.Atoi differs from the decimal model")
}
