package zzh

import (
	"errors"
	"fmt"
	"regexp"
	"strconv"
	"strings"
	"time"
	"unicode"

	"github.com/alowayed/go-univers/pkg/spec/vers"
	"github.com/alowayed/go-univers/pkg/univers"
	vv "github.com/alowayed/go-univers/pkg/zzvv"
)

// Translator validation (vx selfcheck): the same observation is computed natively and by the
// engine in concrete mode on strings harvested from the repository's own tests.

func selfCode[V univers.Version[V], VR univers.VersionRange[V]](e univers.Ecosystem[V, VR], a, b string) int {
	code := 0
	va, ea := e.NewVersion(a)
	vb, eb := e.NewVersion(b)
	if ea == nil {
		code += 1
	}
	if eb == nil {
		code += 2
	}
	if ea == nil && eb == nil {
		code += (sign(va.Compare(vb)) + 1) * 4
	}
	r, er := e.NewVersionRange(a)
	if er == nil {
		code += 16
		if eb == nil && r.Contains(vb) {
			code += 32
		}
	}
	r2, er2 := e.NewVersionRange(b)
	if er2 == nil {
		code += 64
		if ea == nil && r2.Contains(va) {
			code += 128
		}
	}
	return code
}

// vxSelfReport: native side — reports the code through the assertion message.
func vxSelfReport[V univers.Version[V], VR univers.VersionRange[V]](e univers.Ecosystem[V, VR], a, b string) {
	vv.Assert(false, strconv.Itoa(selfCode(e, a, b)))
}

// vxSelf: engine side — the engine's result must equal the native one.
func vxSelf[V univers.Version[V], VR univers.VersionRange[V]](e univers.Ecosystem[V, VR], a, b string, want int) {
	vv.Assert(selfCode(e, a, b) == want, "selfcheck: engine and native execution disagree")
}

func versCode(r, v string) int {
	ok, err := vers.Contains(r, v)
	code := 0
	if ok {
		code += 1
	}
	if err != nil {
		code += 2
	}
	return code
}

func VXSelfVersReport(r, v string) { vv.Assert(false, strconv.Itoa(versCode(r, v))) }

func VXSelfVers(r, v string, want int) {
	vv.Assert(versCode(r, v) == want, "selfcheck: engine and native execution disagree (vers)")
}

// Symbolic translator validation (vx selfcheck, "std" part): library functions the engine
// executes from source (bit operations in strings.EqualFold) or through an intrinsic are compared
// with byte-loop models over all strings of a template. flip negates the expectation: that twin
// must be reported, otherwise the lemma passed vacuously.

func lowerByte(c byte) byte {
	if c >= 'A' && c <= 'Z' {
		return c + 32
	}
	return c
}

func modelFold(a, b string) bool {
	if len(a) != len(b) {
		return false
	}
	for i := 0; i < len(a); i++ {
		if lowerByte(a[i]) != lowerByte(b[i]) {
			return false
		}
	}
	return true
}

func VXStdFold(a, b string, flip bool) {
	vv.Assert(xor(strings.EqualFold(a, b) == modelFold(a, b), flip), "selfcheck: strings.EqualFold differs from the ASCII model")
}

func modelLower(s string) string {
	b := make([]byte, len(s))
	for i := 0; i < len(s); i++ {
		b[i] = lowerByte(s[i])
	}
	return string(b)
}

func isSpaceByte(c byte) bool {
	return c == ' ' || c == '\t' || c == '\n' || c == '\v' || c == '\f' || c == '\r'
}

func modelTrimSpace(s string) string {
	i, j := 0, len(s)
	for i < j && isSpaceByte(s[i]) {
		i++
	}
	for j > i && isSpaceByte(s[j-1]) {
		j--
	}
	return s[i:j]
}

func modelIndex(s, sub string) int {
	for i := 0; i+len(sub) <= len(s); i++ {
		if s[i:i+len(sub)] == sub {
			return i
		}
	}
	return -1
}

func VXStdStrings(a, b string, flip bool) {
	ok := strings.ToLower(a) == modelLower(a)
	ok = ok && strings.TrimSpace(a) == modelTrimSpace(a)
	ok = ok && strings.Index(a, b) == modelIndex(a, b)
	ok = ok && strings.Contains(a, b) == (modelIndex(a, b) >= 0)
	ok = ok && strings.HasPrefix(a, b) == (len(a) >= len(b) && a[:len(b)] == b)
	ok = ok && strings.HasSuffix(a, b) == (len(a) >= len(b) && a[len(a)-len(b):] == b)
	vv.Assert(xor(ok, flip), "selfcheck: a strings function differs from its byte-loop model")
}

func modelAtoi(s string) (int, bool) {
	i := 0
	neg := false
	if len(s) > 0 && (s[0] == '+' || s[0] == '-') {
		neg = s[0] == '-'
		i = 1
	}
	if i == len(s) {
		return 0, false
	}
	n := 0
	for ; i < len(s); i++ {
		if s[i] < '0' || s[i] > '9' {
			return 0, false
		}
		n = n*10 + int(s[i]-'0')
	}
	if neg {
		n = -n
	}
	return n, true
}

func VXStdAtoi(a string, flip bool) {
	n, err := strconv.Atoi(a)
	m, ok := modelAtoi(a)
	good := (err == nil) == ok
	if ok && err == nil {
		good = n == m
	}
	vv.Assert(xor(good, flip), "selfcheck: strconv.Atoi differs from the decimal model")
}

// time.Parse intrinsic: the Unix time of a parsed pseudo-version timestamp, natively and in the
// engine (concrete inputs), and against the days-from-civil formula (symbolic inputs).

func timeCode(s string) int {
	t, err := time.Parse("20060102150405", s)
	if err != nil {
		return -1
	}
	return int(t.Unix())
}

func VXSelfTimeReport(s string) { vv.Assert(false, strconv.Itoa(timeCode(s))) }

func VXSelfTime(s string, want int) {
	vv.Assert(timeCode(s) == want, "selfcheck: engine and native execution disagree (time.Parse)")
}

// daysFromCivil: days since 1970-01-01 (H. Hinnant's algorithm, floor divisions made explicit).
func daysFromCivil(y, m, d int) int {
	if m <= 2 {
		y--
	}
	era := y / 400
	if y < 0 {
		era = (y - 399) / 400
	}
	yoe := y - era*400
	mp := m - 3
	if m <= 2 {
		mp = m + 9
	}
	doy := (153*mp+2)/5 + d - 1
	doe := yoe*365 + yoe/4 - yoe/100 + doy
	return era*146097 + doe - 719468
}

func dig2(s string, i int) int { return int(s[i]-'0')*10 + int(s[i+1]-'0') }

func VXStdTime(s string, flip bool) {
	t, err := time.Parse("20060102150405", s)
	vv.Assume(err == nil)
	y := dig2(s, 0)*100 + dig2(s, 2)
	want := daysFromCivil(y, dig2(s, 4), dig2(s, 6))*86400 + dig2(s, 8)*3600 + dig2(s, 10)*60 + dig2(s, 12)
	vv.Assert(xor(int(t.Unix()) == want, flip), "selfcheck: time.Parse value differs from the days-from-civil model")
}

// Bit operations on operands that may be negative in the interval analysis (rune arithmetic under
// an ite), and strconv.ParseInt / ParseUint from source.
func VXStdFold2(a string, flip bool) {
	vv.Assert(xor(strings.EqualFold(strings.ToLower(a), strings.ToUpper(a)), flip), "selfcheck: EqualFold(ToLower(a), ToUpper(a)) is false")
}

func VXStdParseInt(a string, flip bool) {
	n, err := strconv.ParseInt(a, 10, 64)
	m, ok := modelAtoi(a)
	good := (err == nil) == ok
	if ok && err == nil {
		good = int(n) == m
	}
	u, erru := strconv.ParseUint(a, 10, 32)
	okU := ok && m >= 0 && a[0] != '+' && a[0] != '-'
	good = good && (erru == nil) == okU
	if okU && erru == nil {
		good = good && int(u) == m
	}
	vv.Assert(xor(good, flip), "selfcheck: strconv.ParseInt/ParseUint differ from the decimal model")
}

// UTF-8 decoding in `for range` over a string (engine: symbolic decoder; native: the runtime).
func utf8Code(s string) int {
	code := len(s)
	for i, r := range s {
		code = (code*31 + (i+1)*int(r)) % 1000003
	}
	return code
}

func VXSelfUTF8Report(s string) { vv.Assert(false, strconv.Itoa(utf8Code(s))) }

func VXSelfUTF8(s string, want int) {
	vv.Assert(utf8Code(s) == want, "selfcheck: engine and native execution disagree (UTF-8 decoding)")
}

// VXStdUTF8: on symbolic bytes, the rune sequence of `for range` equals a decoder written from
// the UTF-8 definition (shortest form, surrogates and > U+10FFFF rejected, one byte consumed per error).
func VXStdUTF8(s string, flip bool) {
	var got, want []int
	for _, r := range s {
		got = append(got, int(r))
	}
	for i := 0; i < len(s); {
		r, w := defDecode(s[i:])
		want = append(want, r)
		i += w
	}
	same := len(got) == len(want)
	for i := 0; same && i < len(got); i++ {
		same = got[i] == want[i]
	}
	vv.Assert(xor(same, flip), "selfcheck: for-range rune decoding differs from the UTF-8 definition")
}

func isCont(c byte) bool { return c >= 0x80 && c <= 0xBF }

func defDecode(s string) (int, int) {
	c := s[0]
	need := 0
	v := 0
	switch {
	case c < 0x80:
		return int(c), 1
	case c >= 0xC0 && c <= 0xDF:
		need, v = 1, int(c)-0xC0
	case c >= 0xE0 && c <= 0xEF:
		need, v = 2, int(c)-0xE0
	case c >= 0xF0 && c <= 0xF7:
		need, v = 3, int(c)-0xF0
	default:
		return 0xFFFD, 1
	}
	if len(s) < need+1 {
		return 0xFFFD, 1
	}
	for k := 1; k <= need; k++ {
		if !isCont(s[k]) {
			return 0xFFFD, 1
		}
		v = v*64 + int(s[k]) - 0x80
	}
	min := []int{0, 0x80, 0x800, 0x10000}[need]
	if v < min || v > 0x10FFFF || (v >= 0xD800 && v <= 0xDFFF) {
		return 0xFFFD, 1
	}
	return v, need + 1
}

// Sentinel errors keep their identity through merged calls (== and errors.Is).
var (
	errSentA = errors.New("sentinel a")
	errSentB = errors.New("sentinel b")
)

func pickSentinel(s string) error {
	if len(s) > 0 && s[0] >= '0' && s[0] <= '9' {
		if len(s) > 1 && s[1] == '-' {
			return errSentB
		}
		return fmt.Errorf("wrapped: %w", errSentA)
	}
	if len(s) > 1 && s[1] == '-' {
		return errSentA
	}
	return nil
}

func VXStdSentinel(a string, flip bool) {
	err := pickSentinel(a)
	digit := len(a) > 0 && a[0] >= '0' && a[0] <= '9'
	dash := len(a) > 1 && a[1] == '-'
	good := (err == nil) == (!digit && !dash)
	good = good && (err == errSentB) == (digit && dash)
	good = good && (err == errSentA) == (!digit && dash)
	good = good && errors.Is(err, errSentA) == ((digit && !dash) || (!digit && dash))
	good = good && errors.Is(err, errSentB) == (digit && dash)
	vv.Assert(xor(good, flip), "selfcheck: sentinel error identity lost")
}

// The regexp intrinsic on symbolic bytes >= 0x80 (rune-wise matching) against byte-loop models.
var (
	rxNoSpace = regexp.MustCompile(`^\S+$`)
	rxLower   = regexp.MustCompile(`^[a-z]+$`)
	rxOneRune = regexp.MustCompile(`^.$`)
	rxNotDig  = regexp.MustCompile(`^[^0-9]+$`)
)

func VXStdRegexp(a string, flip bool) {
	noSpace, lower, notDig := len(a) > 0, len(a) > 0, len(a) > 0
	for i := 0; i < len(a); i++ {
		c := a[i]
		if c == ' ' || c == '\t' || c == '\n' || c == '\f' || c == '\r' {
			noSpace = false
		}
		if c < 'a' || c > 'z' {
			lower = false
		}
		if c >= '0' && c <= '9' {
			notDig = false
		}
	}
	runes := 0
	for i := 0; i < len(a); {
		_, w := defDecode(a[i:])
		i += w
		runes++
	}
	good := rxNoSpace.MatchString(a) == noSpace
	good = good && rxLower.MatchString(a) == lower
	good = good && rxNotDig.MatchString(a) == notDig
	good = good && rxOneRune.MatchString(a) == (runes == 1 && a != "\n")
	vv.Assert(xor(good, flip), "selfcheck: regexp matching on non-ASCII bytes differs from the byte-loop models")
}

// strings.ToLower / ToUpper on bytes >= 0x80 against unicode.ToLower/ToUpper applied rune by rune
// (the engine's native builds delta groups; the model re-encodes each rune).
func VXStdCase(a string, flip bool) {
	lo, up := "", ""
	for i := 0; i < len(a); {
		r, w := defDecode(a[i:])
		i += w
		lo += string(unicode.ToLower(rune(r)))
		up += string(unicode.ToUpper(rune(r)))
	}
	vv.Assert(xor(strings.ToLower(a) == lo && strings.ToUpper(a) == up, flip), "selfcheck: ToLower/ToUpper on non-ASCII input differ from the rune-wise model")
}

// strconv.Quote / %q on ASCII input (engine: branch per escape class on symbolic bytes) against a
// table written from the Go specification of interpreted string literals.
func quoteModel(a string) string {
	const hexd = "0123456789abcdef"
	q := []byte{'"'}
	for i := 0; i < len(a); i++ {
		c := a[i]
		switch {
		case c == '"':
			q = append(q, '\\', '"')
		case c == '\\':
			q = append(q, '\\', '\\')
		case c == 7:
			q = append(q, '\\', 'a')
		case c == 8:
			q = append(q, '\\', 'b')
		case c == 12:
			q = append(q, '\\', 'f')
		case c == 10:
			q = append(q, '\\', 'n')
		case c == 13:
			q = append(q, '\\', 'r')
		case c == 9:
			q = append(q, '\\', 't')
		case c == 11:
			q = append(q, '\\', 'v')
		case c < 0x20 || c == 0x7f:
			q = append(q, '\\', 'x', hexd[c>>4], hexd[c&15])
		default:
			q = append(q, c)
		}
	}
	q = append(q, '"')
	return string(q)
}

func quoteCode(s string) int {
	if strconv.Quote(s) == quoteModel(s) && fmt.Sprintf("%q", s) == quoteModel(s) {
		return 1
	}
	return 0
}

func VXSelfQuoteReport(s string) { vv.Assert(false, strconv.Itoa(quoteCode(s))) }

func VXSelfQuote(s string, want int) {
	vv.Assert(quoteCode(s) == want, "selfcheck: engine and native execution disagree (strconv.Quote)")
}

func VXStdQuote(a string, flip bool) {
	m := quoteModel(a)
	vv.Assert(xor(strconv.Quote(a) == m && fmt.Sprintf("%q", a) == m, flip), "selfcheck: strconv.Quote / %q on ASCII input differ from the escape table")
}
