package zzh

import (
	"strings"

	"github.com/alowayed/go-univers/pkg/univers"
	vv "github.com/alowayed/go-univers/pkg/zzvv"
)

// C12 — reference model: org.apache.maven.artifact.versioning.ComparableVersion (Maven 3.8.x):
// parseVersion (lists opened by '-' and by digit/letter transitions), aliases, qualifier ranks,
// normalize (trailing nulls), Item.compareTo for Int / String / List.

const (
	mInt = iota
	mStr
	mLst
)

type mList struct{ items []mItem }

type mItem struct {
	kind int
	num  string // digits without leading zeros ("0" for zero)
	str  string
	sub  *mList
}

func stripZeros(s string) string {
	i := 0
	for i < len(s)-1 && s[i] == '0' {
		i++
	}
	return s[i:]
}

func mParseItem(isDigit bool, buf string) mItem {
	if isDigit {
		return mItem{kind: mInt, num: stripZeros(buf)}
	}
	return mStrItem(buf, false)
}

func mStrItem(v string, followedByDigit bool) mItem {
	if followedByDigit && len(v) == 1 {
		switch v {
		case "a":
			v = "alpha"
		case "b":
			v = "beta"
		case "m":
			v = "milestone"
		}
	}
	switch v {
	case "ga", "final", "release":
		v = ""
	case "cr":
		v = "rc"
	}
	return mItem{kind: mStr, str: v}
}

// comparable qualifier: known ones "0".."6", unknown "7-"+q (compared as strings)
func mQual(q string) string {
	switch q {
	case "alpha":
		return "0"
	case "beta":
		return "1"
	case "milestone":
		return "2"
	case "rc":
		return "3"
	case "snapshot":
		return "4"
	case "":
		return "5"
	case "sp":
		return "6"
	}
	return "7-" + q
}

func strCmp(a, b string) int {
	if a < b {
		return -1
	}
	if a > b {
		return 1
	}
	return 0
}

func mIsNull(it mItem) bool {
	switch it.kind {
	case mInt:
		return it.num == "0"
	case mStr:
		return it.str == ""
	}
	return len(it.sub.items) == 0
}

func mNormalize(l *mList) {
	for i := len(l.items) - 1; i >= 0; i-- {
		last := l.items[i]
		if mIsNull(last) {
			l.items = append(l.items[:i:i], l.items[i+1:]...)
		} else if last.kind != mLst {
			break
		}
	}
}

func mParse(version string) *mList {
	version = strings.ToLower(version)
	root := &mList{}
	list := root
	stack := []*mList{root}
	isDigit := false
	start := 0
	for i := 0; i < len(version); i++ {
		c := version[i]
		switch {
		case c == '.':
			if i == start {
				list.items = append(list.items, mItem{kind: mInt, num: "0"})
			} else {
				list.items = append(list.items, mParseItem(isDigit, version[start:i]))
			}
			start = i + 1
		case c == '-':
			if i == start {
				list.items = append(list.items, mItem{kind: mInt, num: "0"})
			} else {
				list.items = append(list.items, mParseItem(isDigit, version[start:i]))
			}
			start = i + 1
			nl := &mList{}
			list.items = append(list.items, mItem{kind: mLst, sub: nl})
			list = nl
			stack = append(stack, nl)
		case isDig(c):
			if !isDigit && i > start {
				// 1.0.0.X1 < 1.0.0-X2: ".X" is treated as "-X" for any string qualifier X
				if len(list.items) > 0 {
					nl := &mList{}
					list.items = append(list.items, mItem{kind: mLst, sub: nl})
					list = nl
					stack = append(stack, nl)
				}
				list.items = append(list.items, mStrItem(version[start:i], true))
				start = i
				nl := &mList{}
				list.items = append(list.items, mItem{kind: mLst, sub: nl})
				list = nl
				stack = append(stack, nl)
			}
			isDigit = true
		default:
			if isDigit && i > start {
				list.items = append(list.items, mParseItem(true, version[start:i]))
				start = i
				nl := &mList{}
				list.items = append(list.items, mItem{kind: mLst, sub: nl})
				list = nl
				stack = append(stack, nl)
			}
			isDigit = false
		}
	}
	if len(version) > start {
		if !isDigit && len(list.items) > 0 {
			nl := &mList{}
			list.items = append(list.items, mItem{kind: mLst, sub: nl})
			list = nl
			stack = append(stack, nl)
		}
		list.items = append(list.items, mParseItem(isDigit, version[start:]))
	}
	for i := len(stack) - 1; i >= 0; i-- {
		mNormalize(stack[i])
	}
	return root
}

// mCmpNull: item.compareTo(null)
func mCmpNull(it mItem) int {
	switch it.kind {
	case mInt:
		if it.num == "0" {
			return 0
		}
		return 1
	case mStr:
		return strCmp(mQual(it.str), "5")
	}
	for _, x := range it.sub.items {
		if r := mCmpNull(x); r != 0 {
			return r
		}
	}
	return 0
}

func mCmp(a, b mItem) int {
	switch a.kind {
	case mInt:
		switch b.kind {
		case mInt:
			return decCmp(a.num, b.num)
		}
		return 1 // 1.1 > 1-sp, 1.1 > 1-1
	case mStr:
		switch b.kind {
		case mStr:
			return strCmp(mQual(a.str), mQual(b.str))
		}
		return -1 // 1.any < 1.1 , 1.any < 1-1
	}
	switch b.kind {
	case mInt:
		return -1 // 1-1 < 1.0.x
	case mStr:
		return 1 // 1-1 > 1-sp
	}
	return mCmpLists(a.sub, b.sub)
}

func mCmpLists(a, b *mList) int {
	n := len(a.items)
	if len(b.items) > n {
		n = len(b.items)
	}
	for i := 0; i < n; i++ {
		var r int
		switch {
		case i >= len(a.items):
			r = -mCmpNull(b.items[i])
		case i >= len(b.items):
			r = mCmpNull(a.items[i])
		default:
			r = mCmp(a.items[i], b.items[i])
		}
		if r != 0 {
			return r
		}
	}
	return 0
}

func mavenCompare(a, b string) int { return mCmpLists(mParse(a), mParse(b)) }

// mavenConventional: N(.N){0,3} optionally followed by one group joined by '.' or '-':
// a qualifier alone, a qualifier with a number glued or joined by '.'/'-', or a bare build number.
func mavenConventional(s string) bool {
	i := 0
	n := 0
	for {
		j := digitsAt(s, i)
		if j == i {
			return false
		}
		n++
		i = j
		if i+1 < len(s) && s[i] == '.' && isDig(s[i+1]) && n < 4 {
			i++
			continue
		}
		break
	}
	if i == len(s) {
		return true
	}
	if s[i] != '.' && s[i] != '-' {
		return false
	}
	i++
	if i < len(s) && isDig(s[i]) { // bare build number
		return digitsAt(s, i) == len(s)
	}
	j := i
	for j < len(s) && isAlpha(s[j]) {
		j++
	}
	if j == i {
		return false
	}
	q := strings.ToLower(s[i:j])
	if j == len(s) {
		// bare single-letter aliases are exotic
		return len(q) > 1
	}
	if q == "ga" || q == "final" || q == "release" {
		return false // ga/final/release in the middle is exotic
	}
	if len(q) == 1 && !(q == "a" || q == "b" || q == "m") {
		// unknown single letter followed by a number: fine (unknown qualifier)
	}
	if s[j] == '.' || s[j] == '-' {
		j++
	}
	if j >= len(s) || !isDig(s[j]) {
		return false
	}
	return digitsAt(s, j) == len(s)
}

func c12Pair[V univers.Version[V], VR univers.VersionRange[V]](e univers.Ecosystem[V, VR], a, b string) {
	va, ea := e.NewVersion(a)
	vv.Assume(ea == nil)
	vb, eb := e.NewVersion(b)
	vv.Assume(eb == nil)
	vv.Reached()
	vv.Assume(mavenConventional(a))
	vv.Assume(mavenConventional(b))
	vv.Assume(!vv.Known("KF-C12-maven-flat-tokens", c12Scope(a, b)))
	vv.Assert(sign(va.Compare(vb)) == mavenCompare(a, b), "C12: order differs from Maven's ComparableVersion")
}

// c12Scope: the pairs whose Maven order depends on list nesting - a version with a number after '-'
// or after a qualifier, or a qualified version against one with a different number of numeric
// components - unless both versions have the same token structure (same sequence of digit
// runs, letter runs and separators), where nesting is the same on both sides and the flat token
// list gives Maven's answer. (inputs only)
func c12Scope(a, b string) bool {
	if c12Sig(a) == c12Sig(b) {
		return false
	}
	return orb(c12Mixed(a, b), c12DotJoin(a, b))
}

// c12DotJoin: both versions have a qualifier followed by a number and exactly one of them joins
// the two with '.' (1-rc.1 against 1-rc1 or 1-rc-1): '.' and '-' nest differently in Maven.
func c12DotJoin(a, b string) bool {
	ja, jb := qualJoin(a), qualJoin(b)
	if ja == 0 || jb == 0 {
		return false
	}
	return (ja == 3) != (jb == 3)
}

// qualJoin: 0 = no number after a qualifier, 1 = glued, 2 = joined by '-', 3 = joined by '.'.
func qualJoin(s string) int {
	for i := 0; i+1 < len(s); i++ {
		if !isAlpha(s[i]) {
			continue
		}
		n := s[i+1]
		if isDig(n) {
			return 1
		}
		if (n == '-' || n == '.') && i+2 < len(s) && isDig(s[i+2]) {
			if n == '-' {
				return 2
			}
			return 3
		}
	}
	return 0
}

// c12Sig: digit runs -> 'd', letter runs -> 'a', separators as they are.
func c12Sig(s string) string {
	out := make([]byte, 0, len(s))
	for i := 0; i < len(s); i++ {
		c := s[i]
		k := c
		if isDig(c) {
			k = 'd'
		} else if isAlpha(c) {
			k = 'a'
		}
		if (k == 'd' || k == 'a') && len(out) > 0 && out[len(out)-1] == k {
			continue
		}
		out = append(out, k)
	}
	return string(out)
}

// c12Outside: shapes whose Maven order depends on list nesting, which go-univers' flat token
// list cannot express: a number after '-' (1-1 < 1.0.1 < 1.1) and a qualifier followed by a
// number (1.0-rc1, 1.0-RC-2). (inputs only)
func c12Outside(s string) bool {
	sawLetter := false
	for i := 0; i < len(s); i++ {
		c := s[i]
		if isAlpha(c) {
			sawLetter = true
		}
		if isDig(c) && (sawLetter || (i > 0 && s[i-1] == '-')) {
			return true
		}
	}
	return false
}

// numComponents counts the leading dot-separated numeric components; hasQual reports a qualifier.
func c12Shape(s string) (int, bool) {
	n := 0
	i := 0
	for {
		j := digitsAt(s, i)
		if j == i {
			break
		}
		n++
		i = j
		if i+1 < len(s) && s[i] == '.' && isDig(s[i+1]) {
			i++
			continue
		}
		break
	}
	return n, i < len(s)
}

// c12Mixed: a qualified version against a version with a different number of numeric components
// (or against an unqualified one with more components): the answer depends on list nesting.
func c12Mixed(a, b string) bool {
	na, qa := c12Shape(a)
	nb, qb := c12Shape(b)
	if !qa && !qb {
		return false
	}
	return na != nb
}
