// Package zzh holds the generic (public-API) harnesses of /verif. It is overlaid into the module
// at check time and never committed to the repository.
package zzh

// Ecosystems is the spec-side list of the 20 ecosystem names (C15 routing table, DESIGN B.5).
var Ecosystems = []string{"alpine", "alpm", "apache", "cargo", "composer", "conan", "cran", "debian", "gem", "gentoo",
	"github", "golang", "hex", "mattermost", "maven", "npm", "nuget", "pypi", "rpm", "semver"}

func sign(x int) int {
	if x < 0 {
		return -1
	}
	if x > 0 {
		return 1
	}
	return 0
}
