package main

import (
	"strconv"

	"github.com/alowayed/go-univers/pkg/spec/vers"
	"github.com/alowayed/go-univers/pkg/zzh"
	vv "github.com/alowayed/go-univers/pkg/zzvv"
)

// Harnesses for the CLI (C15, C07, C06). Overlaid into package main at check time.

type vxBuf struct{ b []byte }

func (w *vxBuf) Write(p []byte) (int, error) {
	w.b = append(w.b, p...)
	return len(p), nil
}

func oneLine(s string) bool {
	if len(s) == 0 || s[len(s)-1] != '\n' {
		return false
	}
	for i := 0; i < len(s)-1; i++ {
		if s[i] == '\n' {
			return false
		}
	}
	return true
}

func isKnownEco(name string) bool {
	for _, e := range zzh.Ecosystems {
		if e == name {
			return true
		}
	}
	return false
}

func cmpText(c int) string {
	switch c {
	case -1:
		return "-1\n"
	case 0:
		return "0\n"
	}
	return "1\n"
}

func boolText(b bool) string {
	if b {
		return "true\n"
	}
	return "false\n"
}

func okExit(code int, out, want string) bool { return code == 0 && out == want }

func failExit(code int, out string) bool { return code == 1 && len(out) > 0 }

// C15Compare: `univers <name> compare a b` against the library.
func C15Compare(name, a, b string) {
	w := &vxBuf{}
	code := run(w, []string{name, "compare", a, b})
	out := string(w.b)
	vv.Assume(isKnownEco(name))
	c := zzh.LibCompare(name, a, b)
	if c == 2 {
		vv.Assert(failExit(code, out), "C15: compare with an invalid version does not fail with a diagnostic and exit status 1")
		return
	}
	vv.Assert(okExit(code, out, cmpText(c)), "C15: compare output differs from the library's Compare")
}

// C15Contains: `univers <name> contains r v` against the library (range first, version second).
func C15Contains(name, r, v string) {
	w := &vxBuf{}
	code := run(w, []string{name, "contains", r, v})
	out := string(w.b)
	vv.Assume(isKnownEco(name))
	c := zzh.LibContains(name, r, v)
	if c == 2 {
		vv.Assert(failExit(code, out), "C15: contains with an invalid argument does not fail with a diagnostic and exit status 1")
		return
	}
	vv.Assert(okExit(code, out, boolText(c == 1)), "C15: contains output differs from the library (range first, version second)")
}

// C15VersContains: `univers vers contains R v` prints vers.Contains(R, v).
func C15VersContains(r, v string) {
	w := &vxBuf{}
	code := run(w, []string{"vers", "contains", r, v})
	out := string(w.b)
	ok, err := vers.Contains(r, v)
	if err != nil {
		vv.Assert(failExit(code, out), "C15: vers contains with an error does not fail with a diagnostic and exit status 1")
		return
	}
	vv.Assert(okExit(code, out, boolText(ok)), "C15: vers contains output differs from vers.Contains")
}

// C15Sort3: `univers <name> sort a b c` prints the quoted inputs in library order.
func C15Sort3(name, a, b, c string) {
	w := &vxBuf{}
	code := run(w, []string{name, "sort", a, b, c})
	out := string(w.b)
	vv.Assume(isKnownEco(name))
	s := zzh.LibSort3(name, a, b, c)
	if s == "\x01" {
		vv.Assert(failExit(code, out), "C15: sort with an invalid version does not fail with a diagnostic and exit status 1")
		return
	}
	want := ""
	start := 0
	for i := 0; i <= len(s); i++ {
		if i == len(s) || s[i] == 0 {
			if want != "" {
				want += " "
			}
			want += strconv.Quote(s[start:i])
			start = i + 1
		}
	}
	vv.Assert(okExit(code, out, want+"\n"), "C15: sort output is not the quoted inputs in library order")
	vv.Assert(oneLine(out), "C15: more than one line written on success")
}

// C15Arity: wrong arity, unknown names and unknown commands are diagnostics with exit status 1.
// argv is given as up to 5 strings with n = number of arguments used.
func C15Argv(n int, a0, a1, a2, a3, a4 string) {
	args := []string{a0, a1, a2, a3, a4}[:n]
	w := &vxBuf{}
	code := run(w, args)
	out := string(w.b)
	vv.Assert(code == 0 || code == 1, "C15/C06: exit status is neither 0 nor 1")
	vv.Assert(len(out) > 0 && out[len(out)-1] == '\n', "C15/C06: nothing (or no complete line) written")
	bad := wrongUsage(n, args)
	vv.Assert(!bad || code == 1, "C15: wrong arity / unknown ecosystem / unknown command does not exit with status 1")
}

// wrongUsage: spec-side predicate — argument vectors that must be rejected whatever the values.
func wrongUsage(n int, args []string) bool {
	if n == 0 {
		return true
	}
	if args[0] == "vers" {
		if n < 2 || args[1] != "contains" {
			return true
		}
		return n != 4
	}
	if !isKnownEco(args[0]) {
		return true
	}
	if n < 2 {
		return true
	}
	switch args[1] {
	case "compare", "contains":
		return n != 4
	case "sort":
		return n < 3
	}
	return true
}

// C07CliSort3: the CLI sort path (cmd.sort -> real slices.SortFunc -> Compare).
func C07CliSort3(name, a, b, c string) {
	vv.Assume(isKnownEco(name))
	s := zzh.LibSort3(name, a, b, c)
	vv.Assume(s != "\x01")
	w := &vxBuf{}
	code := run(w, []string{name, "sort", a, b, c})
	out := string(w.b)
	vv.Assert(code == 0, "C07: CLI sort of valid versions fails")
	vv.Assert(oneLine(out), "C07: CLI sort does not write exactly one line")
	// the output is exactly the input strings (quoted) as a multiset, in some order
	vv.Assert(isPermOutput(out, strconv.Quote(a), strconv.Quote(b), strconv.Quote(c)), "C07: CLI sort output is not the input strings as a multiset")
	// order is asserted on the library side (C07Sort3) and equality of the two by C15Sort3
}

// C07CliSortBad: an invalid input is reported by name and no partial result is printed.
func C07CliSortBad(name, a, bad, c string) {
	vv.Assume(isKnownEco(name))
	vv.Assume(zzh.LibCompare(name, bad, bad) == 2)
	vv.Assume(zzh.LibCompare(name, a, c) != 2)
	w := &vxBuf{}
	code := run(w, []string{name, "sort", a, bad, c})
	out := string(w.b)
	vv.Assert(code == 1, "C07: CLI sort with an invalid version does not exit with status 1")
	vv.Assert(containsStr(out, bad), "C07: CLI sort error does not name the invalid version")
	vv.Assert(!containsStr(out, strconv.Quote(a)), "C07: CLI sort prints a partial result next to the error")
	// the diagnostic blames the invalid argument, not a valid one (only decisive for the quoting
	// styles '...' and "..."; any other style passes)
	vv.Assert(!containsStr(out, "'"+a+"'"), "C07: CLI sort error names a valid version as the invalid one")
	vv.Assert(!containsStr(out, "'"+c+"'"), "C07: CLI sort error names a valid version as the invalid one")
	vv.Assert(!containsStr(out, strconv.Quote(c)), "C07: CLI sort prints a partial result next to the error")
}

func isPermOutput(out, qa, qb, qc string) bool {
	return out == qa+" "+qb+" "+qc+"\n" || out == qa+" "+qc+" "+qb+"\n" ||
		out == qb+" "+qa+" "+qc+"\n" || out == qb+" "+qc+" "+qa+"\n" ||
		out == qc+" "+qa+" "+qb+"\n" || out == qc+" "+qb+" "+qa+"\n"
}

func containsStr(s, sub string) bool {
	for i := 0; i+len(sub) <= len(s); i++ {
		if s[i:i+len(sub)] == sub {
			return true
		}
	}
	return false
}

// ---- C07 for longer lists: the CLI's generic sort function and the real slices.SortFunc (insertion
// sort below 12 elements, pdqsort from 12) over an abstract ecosystem whose versions are
// (key, text) pairs: Compare orders by key, String returns the text. ids names the argument
// texts (equal letters = the same text given twice), keys holds one symbolic key per letter.

type stubV struct {
	key  int
	text string
}

func (v *stubV) Compare(o *stubV) int {
	if v.key < o.key {
		return -1
	}
	if v.key > o.key {
		return 1
	}
	return 0
}
func (v *stubV) String() string { return v.text }

type stubR struct{}

func (r *stubR) Contains(v *stubV) bool { return false }
func (r *stubR) String() string         { return "" }

type stubEco struct {
	texts []string
	keys  []int
}

func (e *stubEco) Name() string { return "stub" }
func (e *stubEco) NewVersion(s string) (*stubV, error) {
	for i, t := range e.texts {
		if t == s {
			return &stubV{key: e.keys[i], text: s}, nil
		}
	}
	return nil, errStub{}
}
func (e *stubEco) NewVersionRange(s string) (*stubR, error) { return &stubR{}, nil }

type errStub struct{}

func (errStub) Error() string { return "invalid stub version" }

func (e *stubEco) keyOf(s string) int {
	for i, t := range e.texts {
		if t == s {
			return e.keys[i]
		}
	}
	return -1
}

func countStr(xs []string, s string) int {
	n := 0
	for _, x := range xs {
		if x == s {
			n++
		}
	}
	return n
}

const sortAlphabet = "abcdefghijklmnopqrstuvwxyzABCDEFGHIJKLMNOPQRSTUVWXYZ0123456789!#"

func alphaIdx(c byte) int {
	for i := 0; i < len(sortAlphabet); i++ {
		if sortAlphabet[i] == c {
			return i
		}
	}
	return 0
}

// C07AbstractSort: fix != 0 turns each symbolic key into a constant per path before sorting
// (needed for the long lists, where the comparisons themselves would fork too often).
func C07AbstractSort(ids, keys string, fix int) {
	n := len(ids)
	e := &stubEco{}
	args := make([]string, n)
	for i := 0; i < n; i++ {
		j := alphaIdx(ids[i])
		k := int(keys[j] - '0')
		if fix != 0 {
			c := 0
			for c < 9 && k != c {
				c++
			}
			k = c
		}
		args[i] = ids[i : i+1]
		if e.keyOf(args[i]) < 0 {
			e.texts = append(e.texts, args[i])
			e.keys = append(e.keys, k)
		}
	}
	out, err := sort(e, args)
	vv.Assert(err == nil, "C07: sort of valid versions fails")
	vv.Assert(len(out) == n, "C07: sort returns a different number of versions")
	for _, t := range e.texts {
		vv.Assert(countStr(out, t) == countStr(args, t), "C07: sorted output is not the input strings as a multiset")
	}
	for j := 0; j+1 < len(out); j++ {
		vv.Assert(e.keyOf(out[j]) <= e.keyOf(out[j+1]), "C07: sorted output is not in non-decreasing order")
	}
}
