package main

// Spec-side input grammars (DESIGN §4, source 2): per-ecosystem version templates written as
// alternation expressions "(a|b|)" over template syntax, expanded to the cartesian product.
// They describe *structure*; every {class} position is a symbolic byte the solver quantifies over.

import (
	"sort"
	"strings"
)

var ecosystems = []string{"alpine", "alpm", "apache", "cargo", "composer", "conan", "cran", "debian", "gem", "gentoo",
	"github", "golang", "hex", "mattermost", "maven", "npm", "nuget", "pypi", "rpm", "semver"}

// expand expands (x|y|z) groups (nestable) into all alternatives.
func expand(expr string) []string {
	// find first top-level '('
	depth := 0
	start := -1
	for i := 0; i < len(expr); i++ {
		c := expr[i]
		if c == '\\' {
			i++
			continue
		}
		if c == '{' { // skip class bodies
			j := strings.IndexByte(expr[i:], '}')
			if j > 0 {
				if strings.HasPrefix(expr[i:], "{[") {
					k := strings.Index(expr[i:], "]}")
					if k > 0 {
						j = k + 1
					}
				}
				i += j
				continue
			}
		}
		if c == '(' {
			if depth == 0 {
				start = i
			}
			depth++
		} else if c == ')' {
			depth--
			if depth == 0 {
				// split alternatives at top level inside
				inner := expr[start+1 : i]
				var alts []string
				d := 0
				last := 0
				for k := 0; k < len(inner); k++ {
					switch inner[k] {
					case '\\':
						k++
					case '{':
						j := strings.IndexByte(inner[k:], '}')
						if strings.HasPrefix(inner[k:], "{[") {
							if q := strings.Index(inner[k:], "]}"); q > 0 {
								j = q + 1
							}
						}
						if j > 0 {
							k += j
						}
					case '(':
						d++
					case ')':
						d--
					case '|':
						if d == 0 {
							alts = append(alts, inner[last:k])
							last = k + 1
						}
					}
				}
				alts = append(alts, inner[last:])
				var out []string
				rest := expand(expr[i+1:])
				for _, a := range alts {
					for _, ea := range expand(a) {
						for _, r := range rest {
							out = append(out, expr[:start]+ea+r)
						}
					}
				}
				return out
			}
		}
	}
	return []string{expr}
}

func expandAll(exprs ...string) []string {
	seen := map[string]bool{}
	var out []string
	for _, e := range exprs {
		for _, t := range expand(e) {
			if !seen[t] {
				seen[t] = true
				out = append(out, t)
			}
		}
	}
	return out
}

const freeClass = "{[0-9a-z.\\-+_~]}"

// freeRunTemplate: a numeric head the ecosystem accepts followed by two free characters ("" for the
// ecosystems whose 's' set already has such a run: debian, rpm, alpm).
func freeRunTemplate(eco string) string {
	switch eco {
	case "debian", "rpm", "alpm":
		return ""
	case "semver", "npm", "cargo", "hex", "nuget", "mattermost", "github", "apache":
		return "{d}.{d}.{d}" + freeClass + freeClass
	case "golang":
		return "v{d}.{d}.{d}" + freeClass + freeClass
	}
	return "{d}.{d}" + freeClass + freeClass
}

// versionTemplates returns the version grammar templates of an ecosystem for a tier.
// size: "s" (≈6-10 templates: triples), "m" (≈15-40: pairs), "l" (thorough).
func versionTemplates(eco, size string) []string {
	var s, m, l []string
	semverPre := "(-{n}|-{n}.{n}|-{i}{i}|-{n}{n}.{d})"
	// the pair set also has a ten-digit numeric identifier (above 2^31) and a three-character one
	semverPreM := "(-{n}|-{n}.{n}|-{i}{i}|-{n}{n}.{d}|-{D}{d}{d}{d}{d}{d}{d}{d}{d}{d}|-{i}{i}{i})"
	semverPreL := "(-{n}|-{n}.{n}|-{i}{i}|-{n}{n}.{d}|-{d}{d}.{d}|-{i}.{i}.{i}|-{a}{a}{a}{a}.{d}{d}|-{i}{i}{i}|-{n}.{n}.{n}.{n}|--{d}|-{d}{d}{d}{d}{d}{d}{d}{d}{d}{d}{d}{d}{d}{d}{d}{d}{d}{d})"
	switch eco {
	case "semver", "cargo":
		s = expandAll("{d}.{d}.{d}(|"+semverPre[1:len(semverPre)-1]+")", "{d}{d}.{d}.{d}", "{d}.{d}.{d}+{n}")
		m = expandAll("{d}.{d}.{d}(|"+semverPreM[1:len(semverPreM)-1]+")(|+{n})", "{d}{d}.{d}.{d}", "{d}.{d}{d}.{d}{d}-{n}")
		l = expandAll("{d}.{d}.{d}(|"+semverPreL[1:len(semverPreL)-1]+")(|+{n}|+{i}.{i})", "{d}{d}.{d}{d}.{d}{d}(|-{n}.{n})", "{d}{d}{d}{d}{d}{d}{d}{d}{d}{d}.{d}.{d}")
	case "npm":
		s = expandAll("(|v){d}.{d}.{d}(|"+semverPre[1:len(semverPre)-1]+")", "{d}{d}.{d}.{d}", "{d}.{d}.{d}+{n}")
		m = expandAll("(|v){d}.{d}.{d}(|"+semverPreM[1:len(semverPreM)-1]+")(|+{n})", "{d}{d}.{d}.{d}", "{d}.{d}{d}.{d}{d}-{n}")
		l = expandAll("(|v){d}.{d}.{d}(|"+semverPreL[1:len(semverPreL)-1]+")(|+{n}|+{i}.{i})", "{d}{d}.{d}{d}.{d}{d}(|-{n}.{n})")
	case "hex":
		s = expandAll("{d}.{d}.{d}(|"+semverPre[1:len(semverPre)-1]+")", "{d}{d}.{d}.{d}", "{d}.{d}.{d}+{n}")
		m = expandAll("{d}.{d}.{d}(|"+semverPreM[1:len(semverPreM)-1]+")(|+{n})", "{d}{d}.{d}.{d}", "{d}.{d}")
		l = expandAll("{d}.{d}.{d}(|"+semverPreL[1:len(semverPreL)-1]+")(|+{n}|+{i}.{i})", "{d}{d}.{d}{d}.{d}{d}(|-{n}.{n})", "{d}.{d}")
	case "golang":
		ts14 := "20{d}{d}0{D}1{d}1{d}{[0-5]}{d}{[0-5]}{d}" // a valid 14-digit timestamp shape
		pseudo := []string{"v{d}.0.0-" + ts14 + "-{h}{h}{h}{h}{h}{h}{h}{h}{h}{h}{h}{h}", "v{d}.{d}.{d}-0." + ts14 + "-{h}{h}{h}{h}{h}{h}{h}{h}{h}{h}{h}{h}", "v{d}.{d}.{d}-{l}{l}.0." + ts14 + "-{h}{h}{h}{h}{h}{h}{h}{h}{h}{h}{h}{h}"}
		s = expandAll("v{d}.{d}.{d}(|"+semverPre[1:len(semverPre)-1]+")", "v{d}{d}.{d}.{d}", "{d}.{d}.{d}", "v{d}.{d}.{d}+{n}")
		m = expandAll("(v|){d}.{d}.{d}(|"+semverPreM[1:len(semverPreM)-1]+")(|+{n})", "v{d}{d}.{d}.{d}", "v{d}.{d}.{d}+incompatible")
		l = expandAll("(v|){d}.{d}.{d}(|"+semverPreL[1:len(semverPreL)-1]+")(|+{n}|+incompatible)", "v{d}{d}.{d}{d}.{d}{d}(|-{n}.{n})")
		// pseudo-versions (three forms), with a timestamp shape that is always a valid date and, in
		// the thorough tier, with 14 free digits (validity of the date is then part of the path)
		s = append(s, pseudo[1])
		m = append(m, pseudo[0], pseudo[1])
		l = append(l, pseudo[0], pseudo[1], pseudo[2], "v{d}.{d}.{d}-0.{d}{d}{d}{d}{d}{d}{d}{d}{d}{d}{d}{d}{d}{d}-{h}{h}{h}{h}{h}{h}{h}{h}{h}{h}{h}{h}")
	case "nuget":
		s = expandAll("{d}.{d}.{d}(|-{n}|-{n}.{n}|-{i}{i})", "{d}", "{d}.{d}", "{d}.{d}.{d}.{d}", "{d}{d}.{d}.{d}")
		m = expandAll("(|v){d}(|.{d}|.{d}.{d}|.{d}.{d}.{d})(|-{n}|-{n}.{n}|-{i}{i}|-{n}{n}.{d}|-{D}{d}{d}{d}{d}{d}{d}{d}{d}{d})(|+{n})", "{d}{d}.{d}{d}")
		l = expandAll("(|v){d}(|.{d}|.{d}.{d}|.{d}.{d}.{d})(|"+semverPreL[1:len(semverPreL)-1]+")(|+{n})", "{d}{d}.{d}{d}.{d}{d}.{d}{d}")
	case "debian":
		s = expandAll("{d}.{d}", "{d}.{d}-{d}", "{d}:{d}.{d}", "{d}.{d}{[a-z+~.]}", "{d}{[a-z+~.]}{d}", "{d}.{d}{[a-z+~.\\-]}{[a-z+~.]}{l}{d}", "{d}.{d}+{l}{d}-{d}", "{d}{d}.{d}")
		m = expandAll("(|{d}:){d}(.{d}|{[a-z+~.]}{d}|.{d}{[a-z+~.]}|.{d}.{d}|{[a-z+~.]}{[a-z+~.]}{d})(|-{d}|-{d}{[a-z+~.]}{d})", "{d}{d}.{d}{d}", "{d}.{d}~{l}{l}{d}", "{d}.{d}-{d}-{d}")
		l = expandAll("(|{d}:|{d}{d}:){d}(|.{d}|{[A-Za-z+~.]}{d}|.{d}{[A-Za-z+~.]}|.{d}.{d}|{[A-Za-z+~.]}{[A-Za-z+~.]}{d}|.{d}{[a-z+~.]}{[a-z+~.]}|.{d}{d}{d})(|-{d}|-{d}{[a-z+~.]}{d}|-{[a-z+~.]}{d}|-{d}-{d})", "{d}.{d}~{l}{l}{d}", "0{d}.0{d}", "{d}{d}{d}{d}{d}{d}{d}{d}{d}{d}{d}{d}{d}{d}{d}{d}{d}{d}{d}{d}{d}", "{d}{d}{d}{d}{d}{d}{d}{d}{d}{d}{d}{d}{d}{d}{d}{d}{d}{d}{d}{d}", "{d}.{d}{a}{d}", "{d}.{d}.{a}{a}-{d}")
	case "rpm":
		s = expandAll("{d}.{d}", "{d}.{d}-{d}", "{d}:{d}.{d}", "{d}.{d}{[a-z~^._]}", "{d}{[a-z~^._]}{d}", "{d}.{d}{[a-z~^._]}{[a-z~^._]}{l}{d}", "{d}.{d}^{l}{d}", "{d}{d}.{d}")
		m = expandAll("(|{d}:){d}(.{d}|{[a-z~^._+]}{d}|.{d}{[a-z~^._+]}|.{d}.{d}|{[a-z~^._]}{[a-z~^._]}{d})(|-{d}|-{d}.{l}{l}{d})", "{d}{d}.{d}{d}", "{d}.{d}~{l}{l}{d}", "{d}.{d}^{l}{l}{l}{d}")
		l = expandAll("(|{d}:|{d}{d}:){d}(|.{d}|{[A-Za-z~^._+]}{d}|.{d}{[A-Za-z~^._+]}|.{d}.{d}|{[A-Za-z~^._+]}{[A-Za-z~^._+]}{d}|.{d}{[a-z~^._]}{[a-z~^._]}|.{d}{d}{d})(|-{d}|-{d}.{l}{l}{d}|-{[a-z~^._]}{d})", "0{d}.0{d}", "{d}{d}{d}{d}{d}{d}{d}{d}{d}{d}{d}{d}{d}{d}{d}{d}{d}{d}{d}{d}{d}", "{d}{d}{d}{d}{d}{d}{d}{d}{d}{d}{d}{d}{d}{d}{d}{d}{d}{d}{d}{d}", "{d}.{d}{a}{d}", "{d}.{d}.{a}{a}-{d}")
	case "alpm":
		s = expandAll("{d}.{d}", "{d}.{d}-{d}", "{d}:{d}.{d}-{d}", "{d}.{d}{l}", "{d}.{d}{l}{l}{d}", "{d}.{d}.{l}{l}", "{d}{d}.{d}", "{d}.{d}.{d}-{d}", "{d}.{[a-z0-9._]}{[a-z0-9._]}")
		m = expandAll("(|{d}:){d}(.{d}|{[a-z._+]}{d}|.{d}{[a-z._+]}|.{d}.{d}|.{d}{l}{l}{d}|.{d}{l}{l}{l})(|-{d}|-{d}.{d})", "{d}{d}.{d}{d}")
		l = expandAll("(|{d}:|{d}{d}:){d}(|.{d}|{[A-Za-z._+]}{d}|.{d}{[A-Za-z._+]}|.{d}.{d}|.{d}{l}{l}{d}|.{d}{l}{l}{l}|.{d}{l}{l}{l}{l}{d}|.{d}.{l}{l}{d})(|-{d}|-{d}.{d}|-{d}{d})", "0{d}.0{d}", "{d}{d}{d}{d}{d}{d}{d}{d}{d}{d}{d}{d}{d}{d}{d}{d}{d}{d}{d}{d}{d}", "{d}{d}{d}{d}{d}{d}{d}{d}{d}{d}{d}{d}{d}{d}{d}{d}{d}{d}{d}{d}")
	case "maven":
		s = expandAll("{d}", "{d}.{d}", "{d}-{l}{l}", "{d}-{l}{l}{l}", "{d}-{d}", "{d}.{d}-{a}{a}{d}", "{d}.{d}.{d}", "{d}-{l}{d}")
		m = expandAll("{d}(|.{d}|.{d}.{d})(|-{a}{a}|-{a}{a}{a}|-{d}|.{a}{a}{a}{a}{a}|-{a}{a}{d}|-{a}{a}-{d}|-{a}{d}|-{a}{a}{a}{a}{a}{a}{a}{a})", "{d}{d}.{d}{d}", "{d}.0.0", "{d}-{a}{a}{a}{a}{d}")
		l = expandAll("{d}(|.{d}|.{d}.{d}|.{d}.{d}.{d})(|-{a}{a}|-{a}{a}{a}|-{d}|.{d}{d}|.{a}{a}{a}{a}{a}|-{a}{a}{d}|-{a}{a}-{d}|-{a}{a}.{d}|-{a}{d}|-{a}|.{a}|-{a}{a}{a}{a}{a}{a}{a}{a}|-{a}{a}{a}{a}{a}{a}{a}{a}{a}|-{a}{a}{a}{a}{d}|-{a}{a}{a}{a}{a}-{d})", "{d}{d}.{d}{d}", "{d}.0.0", "0{d}.0{d}", "{d}-{a}{a}-{a}{a}")
	case "gem":
		s = expandAll("{d}", "{d}.{d}", "{d}.{d}.{d}", "{d}.{d}.{l}{l}{d}", "{d}.{d}-{l}{l}", "{d}.{d}.{l}", "{d}.{d}.{d}.{l}{l}{d}.{l}", "{d}{d}.{d}")
		m = expandAll("(|v){d}(|.{d}|.{d}.{d}|.{d}.{d}.{d})(|.{l}{l}{d}|.{l}{l}|-{l}{l}|.{l}|.{l}{l}{d}.{l}|-{l}{l}.{d}|-{d}|.{l}{l}{l}{l}{d})", "{d}{d}.{d}{d}", "{d}.0", "{d}.{d}.0.0")
		l = expandAll("(|v){d}(|.{d}|.{d}.{d}|.{d}.{d}.{d})(|.{a}{a}{d}|.{a}{a}|-{a}{a}|.{a}|.{a}{a}{d}.{a}|-{a}{a}.{d}|-{d}|.{a}{a}{a}{a}{d}|.{a}{d}.{a}{d}|-{a}{a}-{a}|.{a}{a}{a}{d}{d}|+{n})", "{d}{d}.{d}{d}", "{d}.0", "{d}.{d}.0.0", "0{d}.0{d}")
	case "alpine":
		s = expandAll("{d}", "{d}.{d}", "{d}.{d}{l}", "{d}.{d}_{l}{l}{d}", "{d}.{d}_{l}", "{d}.{d}-r{d}", "{d}.{d}.{d}", "{d}.{d}_{l}{l}{l}")
		m = expandAll("{d}(|.{d}|.{d}.{d})(|{l})(|_{l}{l}{d}|_{l}|_{l}{l}|_{l}{l}{l}|_{l}{l}{l}{d}|_{l}{l}{l}{l}{d}|_{l}{l}{l}{l}{l}|_{l}{l}_{l})(|-r{d})", "{d}{d}.{d}{d}", "{d}.{d}~{h}{h}")
		l = expandAll("{d}(|.{d}|.{d}.{d}|.{d}.{d}.{d})(|{l})(|_{l}{l}{d}|_{l}|_{l}{d}|_{l}{l}|_{l}{l}{l}|_{l}{l}{l}{d}|_{l}{l}{l}{l}{d}|_{l}{l}{l}{l}{l}|_{l}{l}_{l}|_{l}{l}{l}_{l}{d}|_{l}{d}_{l}{l}{l}{d})(|~{h}{h})(|-r{d}|-r{d}{d})", "{d}{d}.{d}{d}", "0{d}.0{d}", "{d}.0{d}", "{d}{d}{d}{d}{d}{d}{d}{d}{d}{d}{d}{d}{d}{d}{d}{d}{d}{d}{d}{d}")
	case "gentoo":
		s = expandAll("{d}", "{d}.{d}", "{d}.{d}{a}", "{d}.{d}_{l}{l}{d}", "{d}.{d}_p{d}", "{d}.{d}-r{d}", "{d}.{d}.{d}", "{d}.{d}_{l}{l}{l}")
		m = expandAll("{d}(|.{d}|.{d}.{d})(|{a})(|_rc{d}|_p|_p{d}|_{l}{l}{l}|_{l}{l}{l}{d}|_{l}{l}{l}{l}{d}|_{l}{l}{l}{l}{l}|_{l}{l})(|-r{d})", "{d}{d}.{d}{d}")
		l = expandAll("{d}(|.{d}|.{d}.{d}|.{d}.{d}.{d})(|{a})(|_rc{d}|_p|_p{d}|_{l}{l}{l}|_{l}{l}{l}{d}|_{l}{l}{l}{l}{d}|_{l}{l}{l}{l}{l}|_{l}{l}|_{l}{l}{l}{l}{d}{d})(|-r{d}|-r{d}{d})", "{d}{d}.{d}{d}", "0{d}.0{d}", "{d}.0{d}")
	case "composer":
		s = expandAll("{d}.{d}.{d}", "{d}.{d}", "{d}", "{d}.{d}.{d}-{a}{a}", "{d}.{d}.{d}-{a}{a}{a}{a}{d}", "v{d}.{d}.{d}", "{d}.{d}.{d}{a}{d}", "dev-{l}")
		m = expandAll("(|v){d}(|.{d}|.{d}.{d}|.{d}.{d}.{d})(|-{a}{a}|-{a}|-{a}{a}{a}|-{a}{a}{a}{a}{d}|-{a}{a}{a}{a}.{d}|-{a}{a}{a}{a}{a}|-{a}{a}{a}{a}{a}{d}|{a}{d}|{a}{a}{d}|{a}{a}{a}{a}{d}|+{n})", "dev-{l}{l}", "{d}{d}.{d}{d}")
		l = expandAll("(|v){d}(|.{d}|.{d}.{d}|.{d}.{d}.{d}|.{d}.{d}.{d}.{d})(|-{a}{a}|-{a}|-{a}{a}{a}|-{a}{a}{a}{a}{d}|-{a}{a}{a}{a}.{d}|-{a}{a}{a}{a}{a}|-{a}{a}{a}{a}{a}{d}|{a}{d}|{a}{a}{d}|{a}{a}{a}{a}{d}|{a}{a}{a}{a}{a}{d}|-{a}{d}|-{a}{a}{d})(|+{n})", "dev-{l}{l}", "{d}{d}.{d}{d}", "0{d}.0{d}")
	case "conan":
		s = expandAll("{d}.{d}.{d}", "{d}.{d}", "{d}", "{d}.{d}.{d}-{[0-9a-z]}", "{d}.{d}.{d}-{[0-9a-z]}.{[0-9a-z]}", "{d}.{[0-9a-z]}{[0-9a-z]}", "{d}{d}.{d}", "{d}.{d}.{d}+{[0-9a-z]}")
		m = expandAll("{[0-9a-z]}(|.{[0-9a-z]}|.{d}.{d}|.{d}.{d}.{d})(|-{[0-9a-z]}|-{[0-9a-z]}.{[0-9a-z]}|-{[0-9a-z\\-]}{[0-9a-z\\-]})(|+{[0-9a-z]})", "{d}{d}.{d}{d}", "{d}.{[0-9a-z]}{[0-9a-z]}", "0{d}.{d}", "{d}.{d}-{a}{a}", "{d}.{n}{n}")
		l = expandAll("{[0-9a-z]}(|.{[0-9a-z]}|.{d}.{d}|.{d}.{d}.{d}|.{d}.{d}.{d}.{d})(|-{[0-9a-z]}|-{[0-9a-z]}.{[0-9a-z]}|-{[0-9a-z\\-]}{[0-9a-z\\-]}|-{l}{l}.{d}{d})(|+{[0-9a-z]}|+{[0-9a-z]}.{[0-9a-z]})", "{d}{d}.{d}{d}", "{d}.{[0-9a-z]}{[0-9a-z]}", "0{d}.{d}", "{[0-9a-z]}{[0-9a-z]}.{[0-9a-z]}{[0-9a-z]}", "{d}.{d}-{a}{a}", "{d}.{n}{n}", "{d}.{d}.{d}-{a}{a}{a}.{d}+{n}")
	case "cran":
		s = expandAll("{d}.{d}", "{d}.{d}.{d}", "{d}-{d}", "{d}.{d}-{d}", "{d}{d}.{d}", "{d}.{d}.{d}.{d}", "{d}.{d}{d}", "0{d}.{d}")
		m = expandAll("{d}(.|-){d}(|.{d}|-{d}|.{d}.{d}|.{d}-{d})", "{d}{d}.{d}{d}", "0{d}.0{d}", "{d}.{d}.{d}.{d}.{d}")
		l = expandAll("{d}(.|-){d}(|.{d}|-{d}|.{d}.{d}|.{d}-{d}|.{d}.{d}.{d}|-{d}-{d})", "{d}{d}.{d}{d}", "0{d}.0{d}", "{d}.{d}.{d}.{d}.{d}.{d}", "{d}{d}{d}{d}{d}{d}{d}{d}{d}{d}{d}{d}{d}{d}{d}{d}{d}{d}{d}{d}.{d}", "{d}{d}{d}{d}{d}{d}{d}{d}{d}{d}{d}{d}{d}{d}{d}{d}{d}{d}{d}.{d}")
	case "apache":
		s = expandAll("{d}.{d}.{d}", "{d}.{d}.{d}-{a}{a}{d}", "{d}.{d}.{d}-{a}{a}{a}{a}", "{d}.{d}.{d}-{a}{d}", "{d}{d}.{d}.{d}", "{d}.{d}.{d}-{a}{a}{a}", "{d}.{d}.{d}-{a}{a}{a}{a}{a}", "{d}.{d}.{d}-{a}")
		m = expandAll("{d}.{d}.{d}(|-{a}|-{a}{a}|-{a}{a}{a}|-{a}{a}{a}{a}|-{a}{a}{a}{a}{a}|-{a}{a}{a}{a}{a}{a}{a}{a}|-{a}{a}{a}{a}{a}{a}{a}{a}{a}|-{a}{d}|-{a}{a}{d}|-{a}{a}{a}{a}{d}|-{a}{a}{a}{a}{a}{d})", "{d}{d}.{d}{d}.{d}{d}")
		l = expandAll("{d}.{d}.{d}(|-{a}|-{a}{a}|-{a}{a}{a}|-{a}{a}{a}{a}|-{a}{a}{a}{a}{a}|-{a}{a}{a}{a}{a}{a}{a}{a}|-{a}{a}{a}{a}{a}{a}{a}{a}{a}|-{a}{d}|-{a}{a}{d}|-{a}{a}{d}{d}|-{a}{a}{a}{a}{d}|-{a}{a}{a}{a}{a}{d}|-{a}{a}{a}{a}{a}{a}{a}{a}{d}|-{a}{a}v{d}{d}{d}{d}{d}{d}{d}{d})", "{d}{d}.{d}{d}.{d}{d}", "0{d}.{d}.{d}")
	case "github":
		s = expandAll("{d}.{d}.{d}", "v{d}.{d}.{d}", "{d}.{d}.{d}-{a}{a}", "{d}.{d}.{d}-{a}{a}{a}{a}.{d}", "{d}.{d}.{d}-{a}{a}{a}{a}{a}", "{d}.{d}.{d}.{a}{a}{d}", "release-{d}.{d}.{d}", "{d}{d}{d}{d}.{d}.{d}")
		m = expandAll("(|v|release-|rel-){d}.{d}.{d}(|-{a}{a}|-{a}{a}{d}|-{a}{a}{a}{a}|-{a}{a}{a}{a}.{d}|-{a}{a}{a}{a}{a}|-{a}{a}{a}{a}{a}{d}|.{a}{a}{d}|-{a})", "{d}{d}.{d}{d}.{d}{d}", "(|v){d}{d}{d}{d}.{d}.{d}", "{d}{d}{d}{d}.{d}{d}.{d}{d}")
		l = expandAll("(|v|release-|rel-){d}.{d}.{d}(|-{a}{a}|-{a}{a}{d}|-{a}{a}{a}|-{a}{a}{a}{a}|-{a}{a}{a}{a}.{d}|-{a}{a}{a}{a}{a}|-{a}{a}{a}{a}{a}{d}|.{a}{a}{d}|-{a}|-{a}{a}{a}{a}{a}{a}{a}{a}|-{a}{a}{a}{a}{a}{a}{a}{a}{a})", "{d}{d}.{d}{d}.{d}{d}", "(|v){d}{d}{d}{d}.{d}.{d}", "{d}{d}{d}{d}.{d}{d}.{d}{d}", "0{d}.{d}.{d}")
	case "mattermost":
		s = expandAll("{d}.{d}.{d}", "v{d}.{d}.{d}", "{d}.{d}.{d}-rc{d}", "{d}.{d}.{d}-esr", "{d}.{d}.{d}-rc", "{D}{d}.{d}.{d}", "{d}.{D}{d}.{d}", "{d}.{d}.{d}-esr{d}")
		m = expandAll("(|v){d}.{d}.{d}(|-rc{d}|-rc|-esr|-esr{d}|-rc{d}{d})", "{D}{d}.{D}{d}.{D}{d}")
		l = expandAll("(|v)({d}|{D}{d}).({d}|{D}{d}).({d}|{D}{d})(|-rc{d}|-rc|-esr|-esr{d}|-rc{d}{d})")
	case "pypi":
		s = expandAll("{d}.{d}", "{d}.{d}.{d}", "{d}.{d}{l}{d}", "{d}.{d}.post{d}", "{d}.{d}.dev{d}", "{d}!{d}.{d}", "{d}.{d}rc{d}", "{d}.{d}+{n}")
		m = expandAll("(|{d}!){d}(|.{d}|.{d}.{d})(|a{d}|b{d}|rc{d}|.rc{d}|alpha{d}|beta{d}|c{d})(|.post{d}|post{d}|.rev{d}|.r{d})(|.dev{d}|dev{d})(|+{n})", "{d}{d}.{d}{d}")
		l = expandAll("(|{d}!){d}(|.{d}|.{d}.{d}|.{d}.{d}.{d})(|a{d}|b{d}|rc{d}|.rc{d}|alpha{d}|beta{d}|c{d}|.a{d}{d})(|.post{d}|post{d}|.rev{d}|.r{d})(|.dev{d}|dev{d})(|+{n}|+{n}.{n}|+{n}-{d})", "{d}{d}.{d}{d}", "0{d}.0{d}", "{d}.0.0")
	}
	// one template with a short free run over the punctuation-and-alphanumeric alphabet after a
	// numeric head: the shapes nobody thought of (doubled separators, letter/digit/separator mixes)
	if fr := freeRunTemplate(eco); fr != "" {
		s = append(s, fr)
		m = append(m, fr)
		l = append(l, fr, strings.Replace(fr, freeClass, freeClass+freeClass, 1))
	}
	var out []string
	switch size {
	case "s":
		out = s
	case "m":
		out = m
	default:
		out = l
	}
	sort.Strings(out)
	return out
}

// mustTemplates: shapes that thinning must never drop (short spellings that compare equal to
// longer ones, and shapes with a code path of their own).
func mustTemplates(eco string) []string {
	switch eco {
	case "golang":
		ts14 := "20{d}{d}0{D}1{d}1{d}{[0-5]}{d}{[0-5]}{d}"
		h12 := "{h}{h}{h}{h}{h}{h}{h}{h}{h}{h}{h}{h}"
		return []string{"v{d}.{d}.{d}-0." + ts14 + "-" + h12, "v{d}.0.0-" + ts14 + "-" + h12, "v{d}.{d}.{d}-{l}{l}.0." + ts14 + "-" + h12, "v{d}.{d}.{d}"}
	case "conan":
		return []string{"{[0-9a-z]}", "{d}.{d}", "{d}.{d}.{d}"}
	case "gem", "maven", "pypi", "debian", "rpm", "alpine", "gentoo", "alpm", "nuget", "composer":
		return []string{"{d}", "{d}.{d}", "{d}.{d}.{d}"}
	case "cran":
		return []string{"{d}.{d}", "{d}.{d}.{d}"}
	case "github":
		// semantic and date-shaped versions are two kinds with their own rules
		return []string{"{d}.{d}.{d}", "{d}{d}{d}{d}.{d}{d}.{d}{d}", "{d}{d}{d}{d}.{d}.{d}"}
	case "hex":
		return []string{"{d}.{d}", "{d}.{d}.{d}"}
	}
	return []string{"{d}.{d}.{d}"}
}

// pick returns the must-have templates of the ecosystem (those that occur in the pool or are
// accepted shapes) followed by n evenly spaced templates of the pool.
func pick(eco string, pool []string, n int) []string {
	seen := map[string]bool{}
	var out []string
	for _, t := range mustTemplates(eco) {
		if !seen[t] {
			seen[t] = true
			out = append(out, t)
		}
	}
	for _, t := range thin(pool, n) {
		if !seen[t] {
			seen[t] = true
			out = append(out, t)
		}
	}
	return out
}
