package main

import (
	"fmt"
	"strings"
)

func init() {
	registerCheck(&CheckDef{
		ID:    "C18",
		Title: "String() returns the input up to surrounding whitespace; re-parsing it succeeds and compares equal / contains the same versions; leading and trailing ASCII whitespace changes neither acceptance nor any result",
		Pkgs:  []string{zzhPkg},
		Rule:  "C18V / C18R: ecosystem x version (range) template x padding templates (0-2 white-space bytes each side, symbolic among space, tab, CR, LF) x a third version template; raw mode for short inputs",
		Gen: func(tier string) []*Config {
			var out []*Config
			pads := [][2]string{{"{w}", ""}, {"", "{w}"}, {"{w}", "{w}{w}"}}
			if tier == "thorough" {
				pads = append(pads, [2]string{"{w}{w}", "{w}"}, [2]string{"", ""})
			}
			for _, eco := range ecosystems {
				nv := 8
				if tier == "thorough" {
					nv = 20
				}
				all := versionTemplates(eco, "m")
				vs := pick(eco, all, nv)
				if fr := freeRunOf(eco); fr != "" && !has(vs, fr) {
					vs = append(vs, fr)
				}
				// prefixes and decorations the parser accepts in front of a version
				for _, pre := range versionDecorations[eco] {
					core := "{d}.{d}.{d}"
					if t := pre + core; !has(vs, t) {
						vs = append(vs, t)
					}
				}
				third := thin(all, 2)
				for _, s := range vs {
					for _, pd := range pads {
						for _, t := range third {
							out = append(out, &Config{ID: fmt.Sprintf("C18/V/%s/%s/%q|%q/%s", eco, s, pd[0], pd[1], t), Pkg: zzhPkg, Func: "C18V", Args: []ArgSpec{ArgStr(eco), ArgTmpl(s), ArgTmpl(pd[0]), ArgTmpl(pd[1]), ArgTmpl(t)}})
						}
					}
				}
				// every combination of the grammar's optional parts on one release shape, padded on both sides
				for _, s := range phaseTemplates(eco, tier) {
					if has(vs, s) {
						continue
					}
					out = append(out, &Config{ID: fmt.Sprintf("C18/V/%s/parts/%s", eco, s), Pkg: zzhPkg, Func: "C18V", Args: []ArgSpec{ArgStr(eco), ArgTmpl(s), ArgTmpl("{w}"), ArgTmpl("{w}"), ArgTmpl(third[0])}})
				}
				// raw mode: all ASCII strings up to 3 (quick) / 4 bytes, padded by one byte each side
				nraw := 3
				if tier == "thorough" {
					nraw = 4
				}
				for n := 1; n <= nraw; n++ {
					out = append(out, &Config{ID: fmt.Sprintf("C18/V/%s/raw%d", eco, n), Pkg: zzhPkg, Func: "C18V", ScalarMergeOnly: true, Args: []ArgSpec{ArgStr(eco), ArgTmpl(rawTemplate("A", n)), ArgTmpl("{w}"), ArgTmpl("{w}"), ArgTmpl(third[0])}})
				}
				bounds := thin(rangeSafe(eco, all), 3)
				var rs []string
				if len(bounds) > 0 {
					rs = append(rs, comparatorRanges(eco, bounds)...)
				}
				rs = append(rs, shorthandRanges(eco)...)
				nr := 10
				if tier == "thorough" {
					nr = 30
				}
				rs = thin(rs, nr)
				// bounds that may contain upper-case letters (qualifiers, identifiers): String() must
				// return them as given
				if ub := thin(rangeSafe(eco, upperCapable(append(append([]string{}, all...), versionTemplates(eco, "l")...))), 2); len(ub) > 0 {
					ops := opsTable[eco].ops
					for i, b := range ub {
						for k := 0; k < 2 && k < len(ops); k++ {
							rs = append(rs, ops[(i+k)%len(ops)]+b)
						}
					}
				}
				// ... and the same combinations as the bound of a comparator range
				if ops := opsTable[eco].ops; len(ops) > 0 {
					for i, b := range rangeSafe(eco, phaseTemplates(eco, "quick")) {
						rs = append(rs, ops[i%len(ops)]+b)
					}
				}
				for _, r := range rs {
					for _, pd := range pads[:2] {
						out = append(out, &Config{ID: fmt.Sprintf("C18/R/%s/%s/%q|%q", eco, r, pd[0], pd[1]), Pkg: zzhPkg, Func: "C18R", Args: []ArgSpec{ArgStr(eco), ArgTmpl(r), ArgTmpl(pd[0]), ArgTmpl(pd[1]), ArgTmpl(third[0])}})
					}
				}
			}
			return out
		},
		Bounds: func(tier string) string {
			return "versions: 8 (quick) / 20 (thorough) grammar templates per ecosystem, the free-run template and every accepted prefix decoration (v, V, =, v=, release-, rel-) plus all ASCII strings of length <= 3 / 4; ranges: 10 / 30 templates (comparator and shorthand forms) plus up to 4 comparator ranges whose bound admits upper-case letters; paddings of 0-2 bytes per side drawn from space, tab, CR, LF; comparison against 2 further version templates; the part-combination templates (phaseTemplates) as versions padded on both sides and as comparator bounds"
		},
	})
}

// versionDecorations: prefixes accepted in front of X.Y.Z by the ecosystem's version parser
// (determined with the template-acceptance harness VXAccept; alpine's text fallback accepts anything).
var versionDecorations = map[string][]string{
	"alpm": {"v", "V", "release-"}, "conan": {"v", "V", "release-"}, "rpm": {"v", "V", "release-"}, "maven": {"v", "V", "release-", "="},
	"composer": {"v", "release-", "rel-"}, "github": {"v", "release-", "rel-"},
	"gem": {"v"}, "golang": {"v"}, "mattermost": {"v"}, "nuget": {"v"},
	"npm": {"v", "=", "v=", "=v"},
}

// upperCapable keeps the templates with a class that admits upper-case letters.
func upperCapable(ts []string) []string {
	var out []string
	seen := map[string]bool{}
	for _, t := range ts {
		if seen[t] {
			continue
		}
		seen[t] = true
		if strings.Contains(t, "{a}") || strings.Contains(t, "{n}") || strings.Contains(t, "{i}") || strings.Contains(t, "{u}") || strings.Contains(t, "A-Z") {
			out = append(out, t)
		}
	}
	return out
}
