package main

import (
	"fmt"
	"strings"
)

var versSchemes = []string{"alpine", "cargo", "deb", "gem", "generic", "golang", "maven", "npm", "nuget", "pypi", "rpm"}

var schemeEco = map[string]string{"alpine": "alpine", "cargo": "cargo", "deb": "debian", "gem": "gem", "generic": "semver", "golang": "golang",
	"maven": "maven", "npm": "npm", "nuget": "nuget", "pypi": "pypi", "rpm": "rpm"}

// versVersionTemplates: small numeric templates per scheme (bounds and probes of VERS ranges).
func versVersionTemplates(scheme, tier string) []string {
	var t []string
	switch scheme {
	case "generic", "cargo", "npm":
		t = []string{"{d}.{d}.{d}", "{d}.{d}.{d}-{l}{l}", "{d}.{d}{d}.{d}"}
	case "golang":
		t = []string{"v{d}.{d}.{d}", "v{d}.{d}.{d}-{l}{l}", "v{d}.{d}{d}.{d}"}
	case "nuget":
		t = []string{"{d}.{d}.{d}", "{d}.{d}", "{d}.{d}.{d}-{l}{l}"}
	case "deb", "rpm":
		t = []string{"{d}.{d}", "{d}.{d}-{d}", "{d}:{d}.{d}"}
	case "maven":
		t = []string{"{d}.{d}", "{d}.{d}.{d}", "{d}.{d}-{l}{l}"}
	case "alpine":
		t = []string{"{d}.{d}", "{d}.{d}.{d}", "{d}.{d}-r{d}"}
	case "gem":
		t = []string{"{d}.{d}", "{d}.{d}.{d}", "{d}.{d}-{l}{l}"}
	case "pypi":
		// final releases only: the PEP 440 pre-release default is exercised separately
		t = []string{"{d}.{d}", "{d}.{d}.{d}", "{d}.{d}.post{d}"}
	}
	if tier != "thorough" {
		return t[:2]
	}
	return t
}

// versQualTemplate: a version with a two-letter qualifier whose letters may be upper or lower case
// (bounds that differ only in letter case are different versions in the case-sensitive schemes).
func versQualTemplate(scheme string) string {
	switch scheme {
	case "generic", "cargo", "npm", "nuget":
		return "{d}.{d}.{d}-{a}{a}"
	case "golang":
		return "v{d}.{d}.{d}-{a}{a}"
	case "deb", "rpm":
		return "{d}.{d}~{a}{a}"
	case "maven":
		return "{d}.{d}-{a}{a}"
	case "gem":
		return "{d}.{d}.{a}{a}"
	}
	return ""
}

var versOps = []string{"=", "!=", "<", "<=", ">", ">="}

func isLowerOp(op string) bool { return op == ">" || op == ">=" }
func isUpperOp(op string) bool { return op == "<" || op == "<=" }

// validVersPattern: bound comparators alternate as VERS requires:
// [upper] (lower upper)* [lower]
func validVersPattern(ops []string) bool {
	var b []string
	for _, op := range ops {
		if isLowerOp(op) || isUpperOp(op) {
			b = append(b, op)
		}
	}
	j := 0
	if len(b) > 0 && isUpperOp(b[0]) {
		j = 1
	}
	for j < len(b) {
		if !isLowerOp(b[j]) {
			return false
		}
		j++
		if j < len(b) {
			if !isUpperOp(b[j]) {
				return false
			}
			j++
		}
	}
	return true
}

func versPatterns(k int) [][]string {
	var out [][]string
	var rec func(cur []string)
	rec = func(cur []string) {
		if len(cur) == k {
			if validVersPattern(cur) {
				out = append(out, append([]string{}, cur...))
			}
			return
		}
		for _, op := range versOps {
			rec(append(cur, op))
		}
	}
	rec(nil)
	return out
}

// nonAlternating: comparator sequences of length k that are not VERS-alternating.
func nonAlternating(k int) [][]string {
	var out [][]string
	var rec func(cur []string)
	rec = func(cur []string) {
		if len(cur) == k {
			if !validVersPattern(cur) {
				out = append(out, append([]string{}, cur...))
			}
			return
		}
		for _, op := range versOps {
			rec(append(cur, op))
		}
	}
	rec(nil)
	return out
}

func pad3(vs []string) []string {
	out := append([]string{}, vs...)
	for len(out) < 4 {
		out = append(out, "")
	}
	return out
}

func init() {
	registerCheck(&CheckDef{
		ID:         "C04",
		CfgTimeout: 240,
		Title:      "vers.Contains on well-formed ranges with pairwise distinct ascending versions equals the union-of-intervals denotation under the scheme's Compare; vers:<scheme>/* contains every valid version",
		Pkgs:       []string{zzhPkg},
		Rule:       "C04Vers: scheme x comparator pattern (every VERS-valid sequence of k comparators) x version templates x probe template; the whole pipeline valid/scheme/normalize/group/print/re-parse/Contains is executed symbolically",
		Gen: func(tier string) []*Config {
			var out []*Config
			kmax := 3
			for _, scheme := range versSchemes {
				eco := schemeEco[scheme]
				ts := versVersionTemplates(scheme, tier)
				tsAll := ts
				for k := 1; k <= kmax; k++ {
					ts := tsAll
					if scheme == "maven" && k >= 2 && len(ts) > 2 {
						// maven with a qualified bound or probe among two or more constraints exceeds the 900 s
						// budget / 50 000 merged paths (measured); qualified maven versions with k <= 2 are
						// covered by the 'qual' configurations below
						ts = ts[:2]
					}
					for _, pat := range versPatterns(k) {
						// version templates: quick = the first template for all, plus a mixed row
						combos := [][]string{}
						base := make([]string, k)
						for i := range base {
							base[i] = ts[0]
						}
						combos = append(combos, base)
						if k <= 2 || (tier == "thorough" && scheme != "maven") {
							mixed := make([]string, k)
							for i := range mixed {
								mixed[i] = ts[(i+1)%len(ts)]
							}
							combos = append(combos, mixed)
						}
						for _, vs := range combos {
							for pi, probe := range ts {
								if tier != "thorough" && pi > 0 && k == 3 {
									continue
								}
								v := pad3(vs)
								out = append(out, &Config{ID: fmt.Sprintf("C04/%s/%s/%s/%s", scheme, strings.Join(pat, " "), strings.Join(vs, "|"), probe), Pkg: zzhPkg, Func: "C04Vers",
									Args: []ArgSpec{ArgStr(eco), ArgStr(scheme), ArgStr(strings.Join(pat, " ")), ArgTmpl(v[0]), ArgTmpl(v[1]), ArgTmpl(v[2]), ArgTmpl(v[3]), ArgTmpl(probe)}})
							}
						}
					}
				}
				// bounds and probe with a qualifier in either letter case (k <= 2)
				if q := versQualTemplate(scheme); q != "" {
					for k := 1; k <= 2; k++ {
						for _, pat := range versPatterns(k) {
							vs := make([]string, k)
							for i := range vs {
								vs[i] = q
							}
							v := pad3(vs)
							out = append(out, &Config{ID: fmt.Sprintf("C04/%s/%s/qual/%s", scheme, strings.Join(pat, " "), q), Pkg: zzhPkg, Func: "C04Vers",
								Args: []ArgSpec{ArgStr(eco), ArgStr(scheme), ArgStr(strings.Join(pat, " ")), ArgTmpl(v[0]), ArgTmpl(v[1]), ArgTmpl(v[2]), ArgTmpl(v[3]), ArgTmpl(q)}})
						}
					}
				}
				// k = 5..8: lists of '=' points, lists of '!=' exclusions, and three / four lower-upper pairs;
				// bounds staggered by a concrete leading component, the probe symbolic
				{
					stag := func(n int) string {
						parts := make([]string, n)
						for i := range parts {
							parts[i] = strings.Replace(ts[0], "{d}", fmt.Sprint(i+1), 1)
						}
						return strings.Join(parts, "|")
					}
					rep := func(op string, n int) string { return strings.TrimSpace(strings.Repeat(op+" ", n)) }
					long := [][2]string{{rep("=", 5), stag(5)}, {rep("!=", 5), stag(5)}, {">= < >= < >= <", stag(6)}, {"= != = != =", stag(5)}}
					if tier == "thorough" {
						long = append(long, [2]string{rep("=", 8), stag(8)}, [2]string{rep("!=", 8), stag(8)}, [2]string{"> <= > <= > <= > <=", stag(8)}, [2]string{"= >= < != >= <= =", stag(7)})
					}
					for _, lg := range long {
						out = append(out, &Config{ID: fmt.Sprintf("C04/%s/long/%s", scheme, lg[0]), Pkg: zzhPkg, Func: "C04VersN",
							Args: []ArgSpec{ArgStr(eco), ArgStr(scheme), ArgStr(lg[0]), ArgTmpl(lg[1]), ArgTmpl(ts[0])}})
					}
				}
				if scheme == "pypi" {
					// PEP 440 pre-release default: pre-/dev-release probes against ranges that do or do not
					// name a pre-release (in any comparator, '!=' included)
					fin, pre := "{d}.{d}", "{d}.{d}{[abc]}{d}"
					if tier == "thorough" {
						pre = "{d}.{d}(a|b|rc|.dev){d}"
					}
					for _, preT := range expandAll(pre) {
						for k := 1; k <= 2; k++ {
							for _, pat := range versPatterns(k) {
								for mask := 0; mask < 1<<k; mask++ {
									vs := make([]string, k)
									for i := range vs {
										vs[i] = fin
										if mask&(1<<i) != 0 {
											vs[i] = preT
										}
									}
									for _, probe := range []string{preT, fin} {
										if mask == 0 && probe == fin {
											continue // covered above
										}
										v := pad3(vs)
										out = append(out, &Config{ID: fmt.Sprintf("C04/%s/%s/pre/%s/%s", scheme, strings.Join(pat, " "), strings.Join(vs, "|"), probe), Pkg: zzhPkg, Func: "C04Vers",
											Args: []ArgSpec{ArgStr(eco), ArgStr(scheme), ArgStr(strings.Join(pat, " ")), ArgTmpl(v[0]), ArgTmpl(v[1]), ArgTmpl(v[2]), ArgTmpl(v[3]), ArgTmpl(probe)}})
									}
								}
							}
						}
					}
				}
				// k = 4: two complete lower/upper pairs (all 16 inclusiveness combinations); thorough adds
				// one pair with an '=' point and a '!=' exclusion in every position
				for _, pat := range versPatterns(4) {
					nb, ne, nx := 0, 0, 0
					for _, op := range pat {
						switch {
						case isLowerOp(op) || isUpperOp(op):
							nb++
						case op == "=":
							ne++
						default:
							nx++
						}
					}
					twoPairs := nb == 4 && isLowerOp(pat[0])
					pairEqEx := nb == 2 && ne == 1 && nx == 1
					if pairEqEx {
						// the pair in the order lower, upper
						first := ""
						for _, op := range pat {
							if isLowerOp(op) || isUpperOp(op) {
								first = op
								break
							}
						}
						pairEqEx = isLowerOp(first)
					}
					if !twoPairs && !(pairEqEx && tier == "thorough") {
						continue
					}
					// the four bounds are staggered by a concrete leading component (1, 3, 5, 7), the other
					// components stay symbolic; the probe is fully symbolic and can hit every bound
					vs := make([]string, 4)
					for i := range vs {
						vs[i] = strings.Replace(ts[0], "{d}", fmt.Sprint(2*i+1), 1)
					}
					probes := ts[:1]
					if tier == "thorough" {
						probes = ts
					}
					for _, probe := range probes {
						out = append(out, &Config{ID: fmt.Sprintf("C04/%s/%s/%s/%s", scheme, strings.Join(pat, " "), strings.Join(vs, "|"), probe), Pkg: zzhPkg, Func: "C04Vers",
							Args: []ArgSpec{ArgStr(eco), ArgStr(scheme), ArgStr(strings.Join(pat, " ")), ArgTmpl(vs[0]), ArgTmpl(vs[1]), ArgTmpl(vs[2]), ArgTmpl(vs[3]), ArgTmpl(probe)}})
					}
				}
				for _, probe := range versionTemplates(eco, "s") {
					out = append(out, &Config{ID: fmt.Sprintf("C04/%s/star/%s", scheme, probe), Pkg: zzhPkg, Func: "C04Star", Args: []ArgSpec{ArgStr(eco), ArgStr(scheme), ArgTmpl(probe)}})
				}
			}
			return out
		},
		Bounds: func(tier string) string {
			return "11 schemes; every VERS-valid comparator sequence with k <= 3 constraints, and for k = 4 the two-pair sequences (lower upper lower upper, all 16 inclusiveness combinations; thorough adds one pair with an = point and a != exclusion in every position); for k = 5..8 four (quick) / eight (thorough) sequences: lists of '=' points, lists of '!=' exclusions, three and four lower/upper pairs, mixed; versions and probes from 2 (quick) / 3 (thorough) small numeric templates per scheme; pypi: final/post releases, plus k <= 2 ranges with pre-release bounds and pre-/dev-release probes against the PEP 440 default; k <= 2 with a two-letter qualifier in either letter case on every bound and on the probe; maven: for k >= 2 the generic rows use numeric bounds and probes only (a qualified maven version among several constraints exceeds the per-configuration budget), qualified ones are covered for k <= 2 by the qualifier rows"
		},
		Assume: []string{"scheme -> ecosystem routing table is spec-side (DESIGN B.5)", "the interval denotation versSem in harness/pkg/zzh/vers.go is the spec-side reading of the VERS specification"},
	})

	registerCheck(&CheckDef{
		ID:    "C16",
		Title: "vers.Contains (result and error/no-error) is invariant under constraint reordering, whitespace insertion, duplication and empty constraints",
		Pkgs:  []string{zzhPkg},
		Rule:  "metamorphic: C16Inv evaluates vers.Contains on a base spelling and a transformed spelling; transformations are enumerated exhaustively within the bounds",
		Gen: func(tier string) []*Config {
			var out []*Config
			for _, scheme := range versSchemes {
				eco := schemeEco[scheme]
				ts := versVersionTemplates(scheme, tier)
				vt := ts[0]
				probe := ts[0]
				kmax := 3
				if tier != "thorough" && (scheme == "gem" || scheme == "maven") {
					kmax = 2 // the merged vers.contains of these two schemes is the most expensive
				}
				for k := 1; k <= kmax; k++ {
					pats := versPatterns(k)
					if tier != "thorough" && k == 3 {
						pats = thinPats(pats, 12)
					}
					// comparator sequences that do not alternate (two lower or two upper bounds in a row) are
					// accepted as well and are inside the property: all of them for k = 2, 12 (quick) for k = 3
					if k >= 2 {
						na := nonAlternating(k)
						if k == 3 && tier == "thorough" {
							na = thinPats(na, 48)
						}
						if k == 3 && tier != "thorough" {
							// one ordering per multiset (the permutations are applied as transformations):
							// two bounds of one direction with an exclusion, a point or an opposite bound
							na = [][]string{{">=", ">=", "!="}, {">", ">=", "!="}, {"<=", "<=", "!="}, {"<", "<=", "!="},
								{">=", ">", "="}, {"<", "<", "="}, {">=", ">", "<"}, {">=", ">=", "<="}, {"<", "<=", ">"}, {"<=", "<=", ">="},
								{"=", "=", "!="}, {"!=", "!=", ">="}}
						}
						pats = append(pats, na...)
					}
					if tier != "thorough" && len(pats) > 24 {
						pats = thinPats(pats, 24)
					}
					for _, pat := range pats {
						var trs []string
						for _, p := range perms(k) {
							if isIdentity(p) {
								continue
							}
							trs = append(trs, "perm:"+joinInts(p))
						}
						for i := 0; i < k; i++ {
							trs = append(trs, fmt.Sprintf("dup:%d", i))
						}
						for i := 0; i <= k; i++ {
							trs = append(trs, fmt.Sprintf("empty:%d", i))
						}
						// whitespace at every byte position of every constraint
						vlen := templateLen(vt)
						for i := 0; i < k; i++ {
							l := len(pat[i]) + vlen
							for j := 0; j <= l; j++ {
								if tier != "thorough" && k == 3 && j%3 != 0 {
									continue
								}
								if tier == "thorough" && k == 3 && j%2 != 0 {
									continue
								}
								trs = append(trs, fmt.Sprintf("ws:%d:%d", i, j))
							}
						}
						// a duplicate spelled with a space after its comparator / inside its version
						for i := 0; i < k; i++ {
							trs = append(trs, fmt.Sprintf("dupws:%d:%d", i, len(pat[i])), fmt.Sprintf("dupws:%d:%d", i, len(pat[i])+1))
						}
						vs := make([]string, k)
						for i := range vs {
							vs[i] = vt
						}
						v := pad3(vs)
						for _, tr := range trs {
							w := ArgStr("")
							if strings.HasPrefix(tr, "ws:") || strings.HasPrefix(tr, "dupws:") {
								// spaces only: tab, CR and LF are non-printable and must be rejected (C17)
								w = ArgStr(" ")
							}
							out = append(out, &Config{ID: fmt.Sprintf("C16/%s/%s/%s", scheme, strings.Join(pat, " "), tr), Pkg: zzhPkg, Func: "C16Inv",
								Args: []ArgSpec{ArgStr(eco), ArgStr(scheme), ArgStr(strings.Join(pat, " ")), ArgTmpl(v[0]), ArgTmpl(v[1]), ArgTmpl(v[2]), ArgTmpl(v[3]), ArgTmpl(probe), ArgStr(tr), w}})
						}
					}
				}
				if scheme == "pypi" {
					// pre-release versions in constraints and as the probe (the adapter decides the PEP 440
					// pre-release default from the constraint texts)
					fin, pre := "{d}.{d}", "{d}.{d}{[abc]}{d}"
					for _, pat := range [][]string{{">=", "!="}, {"!=", "<"}, {"!=", "!="}, {"=", "!="}, {">=", "<"}} {
						for _, vs := range [][2]string{{fin, pre}, {pre, fin}} {
							var trs []string
							trs = append(trs, "perm:1,0", "dup:0", "dup:1", "empty:0", "empty:1", "empty:2")
							for i := 0; i < 2; i++ {
								for j := 0; j <= len(pat[i])+templateLen(vs[i]); j++ {
									trs = append(trs, fmt.Sprintf("ws:%d:%d", i, j))
								}
							}
							for _, tr := range trs {
								w := ArgStr("")
								if strings.HasPrefix(tr, "ws:") {
									w = ArgStr(" ")
								}
								out = append(out, &Config{ID: fmt.Sprintf("C16/%s/pre/%s/%s|%s/%s", scheme, strings.Join(pat, " "), vs[0], vs[1], tr), Pkg: zzhPkg, Func: "C16Inv",
									Args: []ArgSpec{ArgStr(eco), ArgStr(scheme), ArgStr(strings.Join(pat, " ")), ArgTmpl(vs[0]), ArgTmpl(vs[1]), ArgTmpl(""), ArgTmpl(""), ArgTmpl(pre), ArgStr(tr), w}})
							}
						}
					}
				}
				// two constraints whose versions carry a qualifier in either letter case (they may differ in
				// case only), alone and with a third bound: every permutation and duplicate
				if q := versQualTemplate(scheme); q != "" {
					for _, pat := range [][]string{{">=", ">="}, {"<", "<="}, {"=", "="}, {"!=", "!="}, {"=", "!="}, {">=", ">=", "<"}, {"!=", "!=", ">="}} {
						k := len(pat)
						vs := []string{q, q, vt}[:k]
						v := pad3(vs)
						var trs []string
						for _, pm := range perms(k) {
							if !isIdentity(pm) {
								trs = append(trs, "perm:"+joinInts(pm))
							}
						}
						trs = append(trs, "dup:0", "dup:1")
						for _, tr := range trs {
							out = append(out, &Config{ID: fmt.Sprintf("C16/%s/qual/%s/%s", scheme, strings.Join(pat, " "), tr), Pkg: zzhPkg, Func: "C16Inv",
								Args: []ArgSpec{ArgStr(eco), ArgStr(scheme), ArgStr(strings.Join(pat, " ")), ArgTmpl(v[0]), ArgTmpl(v[1]), ArgTmpl(v[2]), ArgTmpl(v[3]), ArgTmpl(q), ArgStr(tr), ArgStr("")}})
						}
					}
				}
				// k = 4 with an exclusion or a point between two bounds of one direction and a bound of the other
				// (the grouping then depends on the sorted order of the same-direction bounds): every permutation
				mixed4 := [][]string{{">=", ">", "!=", "<"}, {">=", "!=", "<", "<="}}
				if tier == "thorough" {
					mixed4 = append(mixed4, []string{">", ">=", "=", "<="}, []string{">=", "=", "!=", "<"}, []string{">", "!=", "!=", "<="})
				}
				for _, pat := range mixed4 {
					vs := make([]string, 4)
					for i := range vs {
						vs[i] = strings.Replace(vt, "{d}", fmt.Sprint(2*i+1), 1)
					}
					for _, pm := range perms(4) {
						if isIdentity(pm) {
							continue
						}
						tr := "perm:" + joinInts(pm)
						out = append(out, &Config{ID: fmt.Sprintf("C16/%s/%s/%s", scheme, strings.Join(pat, " "), tr), Pkg: zzhPkg, Func: "C16Inv",
							Args: []ArgSpec{ArgStr(eco), ArgStr(scheme), ArgStr(strings.Join(pat, " ")), ArgTmpl(vs[0]), ArgTmpl(vs[1]), ArgTmpl(vs[2]), ArgTmpl(vs[3]), ArgTmpl(probe), ArgStr(tr), ArgStr("")}})
					}
				}
				// k = 4: two lower/upper pairs with staggered bounds (1, 3, 5, 7 as the leading component),
				// quick: the four mixed-inclusiveness patterns, thorough: all sixteen; every transposition
				// and the reversal, one duplicate, one empty constraint, one space per constraint
				for _, pat := range versPatterns(4) {
					if !(isLowerOp(pat[0]) && isUpperOp(pat[1]) && isLowerOp(pat[2]) && isUpperOp(pat[3])) {
						continue
					}
					mixed := (pat[0] == ">=") != (pat[1] == "<=") && (pat[2] == ">=") != (pat[3] == "<=")
					if tier != "thorough" && !mixed {
						continue
					}
					vs := make([]string, 4)
					for i := range vs {
						vs[i] = strings.Replace(vt, "{d}", fmt.Sprint(2*i+1), 1)
					}
					trs := []string{"perm:1,0,2,3", "perm:0,2,1,3", "perm:0,1,3,2", "perm:2,3,0,1", "perm:3,2,1,0", "perm:1,3,0,2", "dup:1", "dup:2", "empty:2", "empty:4", "ws:1:1", "ws:2:0",
						fmt.Sprintf("dupws:0:%d", len(pat[0])), fmt.Sprintf("dupws:1:%d", len(pat[1])+1), fmt.Sprintf("dupws:2:%d", len(pat[2])), fmt.Sprintf("dupws:3:%d", len(pat[3]))}
					for _, tr := range trs {
						w := ArgStr("")
						if strings.HasPrefix(tr, "ws:") || strings.HasPrefix(tr, "dupws:") {
							w = ArgStr(" ")
						}
						out = append(out, &Config{ID: fmt.Sprintf("C16/%s/%s/%s", scheme, strings.Join(pat, " "), tr), Pkg: zzhPkg, Func: "C16Inv",
							Args: []ArgSpec{ArgStr(eco), ArgStr(scheme), ArgStr(strings.Join(pat, " ")), ArgTmpl(vs[0]), ArgTmpl(vs[1]), ArgTmpl(vs[2]), ArgTmpl(vs[3]), ArgTmpl(probe), ArgStr(tr), w}})
					}
				}
			}
			return out
		},
		Bounds: func(tier string) string {
			return "11 schemes; comparator patterns, alternating and not, with k <= 3 (quick: at most 24 patterns for k=2, 12 for k=3, and k <= 2 for gem and maven), plus, for k = 4, the two-pair patterns (quick: 4 of 16) under 6 permutations, 2 duplicates, 2 empty constraints and 2 spaces, and 2 (5) patterns with an exclusion between same-direction bounds under all 23 permutations; all permutations, one duplicate at every position, one empty constraint at every position, one space at every (for k=3: every second, quick: every third) byte position of every constraint (tab, CR and LF are non-printable and belong to C17); a duplicate spelled with one space after its comparator or inside its version, for every constraint; 7 patterns whose first two versions carry a two-letter qualifier in either letter case, under every permutation and duplicate"
		},
	})

	registerCheck(&CheckDef{
		ID:    "C17",
		Title: "vers.Contains returns (false, error) for every malformed range / invalid version, and evaluates each scheme with its own ecosystem's validity and order",
		Pkgs:  []string{zzhPkg},
		Rule:  "C17Corrupt: single-point delete/replace/insert with a symbolic byte at every position of valid base ranges (oracle: spec-side mustError); C17Bad: raw heads/tails; C17Route: scheme x comparator x discriminating version templates",
		Gen: func(tier string) []*Config {
			var out []*Config
			for _, scheme := range versSchemes {
				eco := schemeEco[scheme]
				ts := versVersionTemplates(scheme, "thorough")
				one := concretize(ts[0], "1")
				two := concretize(ts[0], "2")
				bases := []string{"vers:" + scheme + "/>=" + one + "|<" + two, "vers:" + scheme + "/=" + one, "vers:" + scheme + "/<" + one + "|!=" + two}
				if tier != "thorough" {
					bases = bases[:2]
				}
				probeT := ts[0]
				for _, base := range bases {
					for pos := 0; pos <= len(base); pos++ {
						if pos < len(base) {
							out = append(out, &Config{ID: fmt.Sprintf("C17/corrupt/%s/%s/del@%d", scheme, base, pos), Pkg: zzhPkg, Func: "C17Corrupt", Args: []ArgSpec{ArgStr(base), ArgTmpl(probeT), ArgInt(0), ArgInt(int64(pos)), ArgStr("")}})
							out = append(out, &Config{ID: fmt.Sprintf("C17/corrupt/%s/%s/rep@%d", scheme, base, pos), Pkg: zzhPkg, Func: "C17Corrupt", Args: []ArgSpec{ArgStr(base), ArgTmpl(probeT), ArgInt(1), ArgInt(int64(pos)), ArgTmpl("{B}")}})
						}
						out = append(out, &Config{ID: fmt.Sprintf("C17/corrupt/%s/%s/ins@%d", scheme, base, pos), Pkg: zzhPkg, Func: "C17Corrupt", Args: []ArgSpec{ArgStr(base), ArgTmpl(probeT), ArgInt(2), ArgInt(int64(pos)), ArgTmpl("{B}")}})
						// a two-byte UTF-8 sequence (U+0080..U+07FF: printable non-ASCII letters among them)
						out = append(out, &Config{ID: fmt.Sprintf("C17/corrupt/%s/%s/ins2@%d", scheme, base, pos), Pkg: zzhPkg, Func: "C17Corrupt", Args: []ArgSpec{ArgStr(base), ArgTmpl(probeT), ArgInt(2), ArgInt(int64(pos)), ArgTmpl("{[\\xc2-\\xdf]}{[\\x80-\\xbf]}")}})
					}
				}
				// routing: versions that other ecosystems accept or order differently
				for _, op := range []string{"<", ">=", "="} {
					for _, a := range routeTemplates {
						for _, v := range routeTemplates {
							out = append(out, &Config{ID: fmt.Sprintf("C17/route/%s/%s/%s|%s", scheme, op, a, v), Pkg: zzhPkg, Func: "C17Route", Args: []ArgSpec{ArgStr(eco), ArgStr(scheme), ArgStr(op), ArgTmpl(a), ArgTmpl(v)}})
						}
					}
				}
			}
			// probes that are a valid version followed (or preceded) by raw printable bytes: the probe is
			// accepted exactly when the scheme's ecosystem accepts it (`1.5.0+`, `1.5.0-`, `1.5.0..`)
			for _, scheme := range versSchemes {
				eco := schemeEco[scheme]
				ts := versVersionTemplates(scheme, "thorough")
				pr := "{[\\x21-\\x7e]}"
				tails := []string{ts[0] + pr, ts[0] + pr + pr, pr + ts[0], ts[0] + "{[+\\-.~_]}{[0-9a-z+\\-.~_]}{[0-9a-z+\\-.~_]}"}
				if tier == "thorough" {
					tails = append(tails, ts[1]+pr, ts[1]+pr+pr, ts[0]+pr+pr+pr)
				}
				for _, v := range tails {
					out = append(out, &Config{ID: fmt.Sprintf("C17/route/%s/probe/%s", scheme, v), Pkg: zzhPkg, Func: "C17Route", Args: []ArgSpec{ArgStr(eco), ArgStr(scheme), ArgStr(">="), ArgTmpl(ts[0]), ArgTmpl(v)}})
					if !strings.Contains(v, "x21") {
						// bounds: version alphabet only ('|', '*', brackets are VERS / range syntax there)
						out = append(out, &Config{ID: fmt.Sprintf("C17/route/%s/bound/%s", scheme, v), Pkg: zzhPkg, Func: "C17Route", Args: []ArgSpec{ArgStr(eco), ArgStr(scheme), ArgStr(">="), ArgTmpl(v), ArgTmpl(ts[0])}})
					}
				}
			}
			// raw heads and tails
			n := 5
			if tier == "thorough" {
				n = 6
			}
			for l := 0; l <= n; l++ {
				out = append(out, &Config{ID: fmt.Sprintf("C17/bad/head%d", l), Pkg: zzhPkg, Func: "C17Bad", ScalarMergeOnly: true, Args: []ArgSpec{ArgTmpl(rawTemplate("A", l) + "/>=1.0.0"), ArgStr("1.0.0")}})
				out = append(out, &Config{ID: fmt.Sprintf("C17/bad/tail%d", l), Pkg: zzhPkg, Func: "C17Bad", ScalarMergeOnly: true, Args: []ArgSpec{ArgTmpl("vers:npm/" + rawTemplate("A", l)), ArgStr("1.0.0")}})
				out = append(out, &Config{ID: fmt.Sprintf("C17/bad/scheme%d", l), Pkg: zzhPkg, Func: "C17Bad", ScalarMergeOnly: true, Args: []ArgSpec{ArgTmpl("vers:" + rawTemplate("A", l) + "/>=1.0.0"), ArgStr("1.0.0")}})
			}
			return out
		},
		Bounds: func(tier string) string {
			return "single-point corruptions (delete / replace by any byte 0x00-0xff / insert any byte / insert any two-byte UTF-8 sequence) at every position of 2 (quick) / 3 (thorough) base ranges per scheme; raw ASCII heads, tails and scheme names up to 5 / 6 bytes; routing with 7 discriminating version templates x 3 comparators x 11 schemes, and with probes that are a valid version plus 1-2 (3) raw printable bytes (bounds: plus 3 bytes of the version alphabet); lone '*' not covered"
		},
		Assume: []string{"mustError in harness/pkg/zzh/vers.go is the spec-side reading of the malformations listed in the property"},
	})
}

var routeTemplates = []string{"{d}.{d}~rc{d}", "{d}.{d}.{d}-{l}{l}{l}{l}{l}", "{d}:{d}.{d}", "v{d}.{d}.{d}", "{d}.{d}", "{d}.{d}.{d}", "{d}.{d}_{l}{l}{d}"}

func concretize(tmpl, digit string) string {
	pos, _ := parseTemplate(tmpl)
	var sb strings.Builder
	for _, p := range pos {
		if p.lit {
			sb.WriteByte(p.b)
		} else if p.set.Has(int(digit[0])) {
			sb.WriteString(digit)
		} else {
			sb.WriteByte(byte(p.set.Min()))
		}
	}
	return sb.String()
}

func templateLen(t string) int {
	pos, _ := parseTemplate(t)
	return len(pos)
}

func thinPats(p [][]string, n int) [][]string {
	if len(p) <= n {
		return p
	}
	out := make([][]string, 0, n)
	for i := 0; i < n; i++ {
		out = append(out, p[i*len(p)/n])
	}
	return out
}

func perms(k int) [][]int {
	var out [][]int
	var rec func(cur []int, used []bool)
	rec = func(cur []int, used []bool) {
		if len(cur) == k {
			out = append(out, append([]int{}, cur...))
			return
		}
		for i := 0; i < k; i++ {
			if !used[i] {
				used[i] = true
				rec(append(cur, i), used)
				used[i] = false
			}
		}
	}
	rec(nil, make([]bool, k))
	return out
}

func isIdentity(p []int) bool {
	for i, x := range p {
		if i != x {
			return false
		}
	}
	return true
}

func joinInts(p []int) string {
	s := make([]string, len(p))
	for i, x := range p {
		s[i] = fmt.Sprint(x)
	}
	return strings.Join(s, ",")
}
