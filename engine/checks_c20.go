package main

import (
	"fmt"
	"strings"
)

// ignoredPartTemplates: a version template without and with the part Compare ignores.
func ignoredPartTemplates(eco string) (plain, suffixed string) {
	switch eco {
	case "pypi":
		return "{d}.{d}", "{d}.{d}+{l}{l}"
	case "semver", "npm", "cargo", "hex", "nuget", "composer":
		return "{d}.{d}.{d}", "{d}.{d}.{d}+{n}{n}"
	case "golang":
		return "v{d}.{d}.{d}", "v{d}.{d}.{d}+{n}{n}"
	}
	return "", ""
}

// freeRunOf: the free-run template of the ecosystem (its own for debian, rpm and alpm).
func freeRunOf(eco string) string {
	switch eco {
	case "debian":
		return "{d}.{d}{[a-z+~.\\-]}{[a-z+~.]}"
	case "rpm":
		return "{d}.{d}{[a-z~^._]}{[a-z~^._]}"
	case "alpm":
		return "{d}.{[a-z0-9._]}{[a-z0-9._]}"
	}
	return freeRunTemplate(eco)
}

func init() {
	registerCheck(&CheckDef{
		ID:    "C20",
		Title: "versions that compare equal are both in or both out of every range; conjunctive ranges (no '||', no '!=') are convex",
		Pkgs:  []string{zzhPkg},
		Rule:  "C20Cong: ecosystem x range template x two version templates (assume Compare==0); C20Convex: ecosystem x conjunctive range template x three version templates",
		Gen: func(tier string) []*Config {
			var out []*Config
			nr, nv, nt := 12, 5, 3
			if tier == "thorough" {
				nr, nv, nt = 40, 12, 7
			}
			for _, eco := range ecosystems {
				all := versionTemplates(eco, "m")
				bounds := thin(rangeSafe(eco, all), 4)
				var rs []string
				if len(bounds) > 0 {
					rs = append(rs, thin(comparatorRanges(eco, bounds), nr/2)...)
				}
				rs = append(rs, thin(shorthandRanges(eco), nr)...)
				vs := pick(eco, all, nv-2)
				// spelling variants that can compare equal (1 / 1.0 / 1.0.0) are in the must-have set
				vt := pick(eco, all, nt-2)
				// parts of a version that Compare ignores (build metadata, pypi local label): the
				// bound of the range and the candidates carry them in different spellings
				if plain, suff := ignoredPartTemplates(eco); plain != "" {
					var irs []string
					for _, op := range opsTable[eco].ops {
						if eco == "pypi" && (op == "===" || op == "~=") {
							continue
						}
						irs = append(irs, op+suff)
					}
					if eco == "nuget" {
						// interval notation and the comparator list form
						irs = append(irs, "["+suff+"]", "["+suff+",)", "("+suff+",)", "(,"+suff+"]", "(,"+suff+")", "="+suff+",>=0.0.0", ">="+suff+",<9.9.9")
					}
					// ... and as one alternative of an OR list
					for _, or := range opsTable[eco].ors {
						irs = append(irs, suff+or+plain, "="+suff+or+">="+plain, "<"+plain+or+suff+or+">="+plain)
					}
					for _, r := range irs {
						for _, b := range []string{plain, suff} {
							id := fmt.Sprintf("C20/cong/%s/%s/ignored/%s", eco, r, b)
							out = append(out, &Config{ID: id, Pkg: zzhPkg, Func: "C20Cong", Args: []ArgSpec{ArgStr(eco), ArgTmpl(r), ArgTmpl(suff), ArgTmpl(b)}})
						}
					}
				}
				// the free-run template (two characters over the whole version alphabet) against the
				// must-have spellings: pairs in both orders and the three positions in a triple (thorough: also two free runs)
				if fr := freeRunOf(eco); fr != "" {
					must := mustTemplates(eco)
					frRanges := thin(rs, 6)
					if tier == "thorough" {
						frRanges = thin(rs, 16)
					}
					for _, r := range frRanges {
						if eco == "pypi" && len(r) >= 3 && r[:3] == "===" {
							continue
						}
						for _, t := range append(append([]string{}, must...), fr) {
							for _, pr := range [][2]string{{fr, t}, {t, fr}} {
								out = append(out, &Config{ID: fmt.Sprintf("C20/cong/%s/%s/free/%s|%s", eco, r, pr[0], pr[1]), Pkg: zzhPkg, Func: "C20Cong", Args: []ArgSpec{ArgStr(eco), ArgTmpl(r), ArgTmpl(pr[0]), ArgTmpl(pr[1])}})
							}
						}
						if !isConjunctive(r) {
							continue
						}
						m0, m1 := must[0], must[len(must)-1]
						triples := [][3]string{{fr, m0, m1}, {m0, fr, m1}, {m0, m1, fr}}
						if tier == "thorough" {
							triples = append(triples, [3]string{fr, fr, m0}, [3]string{m0, fr, fr}, [3]string{fr, m1, fr})
						}
						for _, tr := range triples {
							out = append(out, &Config{ID: fmt.Sprintf("C20/convex/%s/%s/free/%s|%s|%s", eco, r, tr[0], tr[1], tr[2]), Pkg: zzhPkg, Func: "C20Convex", Args: []ArgSpec{ArgStr(eco), ArgTmpl(r), ArgTmpl(tr[0]), ArgTmpl(tr[1]), ArgTmpl(tr[2])}})
						}
					}
				}
				// combinations of the grammar's optional parts (epoch, pre / post, revision, build) on
				// one release shape: bounds that lack a part against candidates that carry it
				if ph := phaseTemplates(eco, "quick"); len(ph) > 0 {
					np, nrr := 4, 4
					if tier == "thorough" {
						np, nrr = 6, 10
					}
					pt := thin(ph, np)
					var conj []string
					for _, r := range rs {
						if isConjunctive(r) && !(eco == "pypi" && len(r) >= 3 && r[:3] == "===") {
							conj = append(conj, r)
						}
					}
					for _, r := range thin(conj, nrr) {
						for _, a := range pt {
							for _, b := range pt {
								out = append(out, &Config{ID: fmt.Sprintf("C20/cong/%s/%s/parts/%s|%s", eco, r, a, b), Pkg: zzhPkg, Func: "C20Cong", Args: []ArgSpec{ArgStr(eco), ArgTmpl(r), ArgTmpl(a), ArgTmpl(b)}})
								for _, c := range pt {
									out = append(out, &Config{ID: fmt.Sprintf("C20/convex/%s/%s/parts/%s|%s|%s", eco, r, a, b, c), Pkg: zzhPkg, Func: "C20Convex", Args: []ArgSpec{ArgStr(eco), ArgTmpl(r), ArgTmpl(a), ArgTmpl(b), ArgTmpl(c)}})
								}
							}
						}
					}
				}
				// the same part combinations in two spellings of one release (X.Y and X.Y.0) for the
				// ecosystems that pad releases with zeros: equal versions, different text, every comparator
				// with a plain final bound (rules such as "<V excludes pre-releases of V" must not look at text)
				if eco == "pypi" || eco == "gem" || eco == "maven" || eco == "nuget" || eco == "conan" {
					ops := opsTable[eco].ops
					var prs []string
					for _, op := range ops {
						if eco == "pypi" && (op == "===" || op == "~=") {
							continue
						}
						prs = append(prs, op+"{d}.{d}", op+"{d}.{d}.0")
					}
					if eco == "pypi" {
						prs = append(prs, "~={d}.{d}.{d}", "=={d}.{d}.*", ">={d}.{d},<{d}.{d}")
					}
					if eco == "maven" || eco == "nuget" {
						prs = append(prs, "[{d}.{d},{d}.{d})", "({d}.{d},{d}.{d}.0]", "[{d}.{d}]")
					}
					for _, r := range prs {
						for _, t := range phaseTemplates(eco, "quick") {
							if !strings.HasPrefix(t, "{d}.{d}") || strings.HasPrefix(t, "{d}.{d}.{d}") {
								continue
							}
							padded := "{d}.{d}.0" + t[len("{d}.{d}"):]
							out = append(out, &Config{ID: fmt.Sprintf("C20/cong/%s/%s/padded/%s", eco, r, t), Pkg: zzhPkg, Func: "C20Cong", Args: []ArgSpec{ArgStr(eco), ArgTmpl(r), ArgTmpl(t), ArgTmpl(padded)}})
						}
					}
				}
				for _, r := range rs {
					if eco == "pypi" && len(r) >= 3 && r[:3] == "===" {
						continue
					}
					for _, a := range vs {
						for _, b := range vs {
							out = append(out, &Config{ID: fmt.Sprintf("C20/cong/%s/%s/%s|%s", eco, r, a, b), Pkg: zzhPkg, Func: "C20Cong", Args: []ArgSpec{ArgStr(eco), ArgTmpl(r), ArgTmpl(a), ArgTmpl(b)}})
						}
					}
					if !isConjunctive(r) {
						continue
					}
					for _, a := range vt {
						for _, b := range vt {
							for _, c := range vt {
								out = append(out, &Config{ID: fmt.Sprintf("C20/convex/%s/%s/%s|%s|%s", eco, r, a, b, c), Pkg: zzhPkg, Func: "C20Convex", Args: []ArgSpec{ArgStr(eco), ArgTmpl(r), ArgTmpl(a), ArgTmpl(b), ArgTmpl(c)}})
							}
						}
					}
				}
			}
			return out
		},
		Bounds: func(tier string) string {
			return "ranges: comparator forms per DESIGN B.1 plus shorthand constructs per B.4 (thinned to 12 quick / 40 thorough per ecosystem); versions: 5 (12) grammar templates for pairs, 3 (7) for triples; pypi '===' excluded; per ecosystem one free-run version template (two characters over the version alphabet) against the must-have spellings on 6 (16) ranges; one comparator range per operator whose bound and candidates carry build metadata / a pypi local label; alpm pairs differing in pkgrel presence excluded; part-combination templates (phaseTemplates, thinned to 4 (6)) as pairs and triples on 4 (10) conjunctive ranges per ecosystem; for pypi, gem, maven, nuget, conan each part combination in the spellings X.Y and X.Y.0 against every comparator with a plain bound"
		},
	})
}
