package main

// Native intrinsics: regexp, fmt, errors, selected strings/strconv/unicode functions, vv.

import (
	"fmt"
	"go/types"
	"math/big"
	"sort"
	"strconv"
	"strings"
	"unicode"

	"golang.org/x/tools/go/ssa"
)

type nativeFn func(in *Interp, fn *ssa.Function, args []Value) Value

var nativeTable map[string]nativeFn

func init() {
	nativeTable = map[string]nativeFn{
		"regexp.MustCompile":                  natRegexpCompile,
		"regexp.Compile":                      natRegexpCompile2,
		"(*regexp.Regexp).FindStringSubmatch": natFindStringSubmatch,
		"(*regexp.Regexp).MatchString":        natMatchString,
		"(*regexp.Regexp).FindString":         natFindString,
		"(*regexp.Regexp).FindStringIndex":    natFindStringIndex,
		"(*regexp.Regexp).String":             natRegexpString,
		"regexp.MatchString":                  natRegexpMatchString,
		"fmt.Sprintf":                         natSprintf,
		"fmt.Errorf":                          natErrorf,
		"fmt.Sprint":                          natSprint,
		"fmt.Fprintf":                         natFprintf,
		"fmt.Fprintln":                        natFprintln,
		"fmt.Fprint":                          natFprint,
		"errors.New":                          natErrorsNew,
		"errors.Is":                           natErrorsIs,
		"errors.Unwrap":                       natErrorsUnwrap,
		"strings.ToLower":                     natToLower,
		"strings.ToUpper":                     natToUpper,
		"strings.TrimSpace":                   natTrimSpace,
		"strings.Split":                       natSplit,
		"strings.SplitN":                      natSplitN,
		"strings.Fields":                      natFields,
		"strings.Index":                       natIndex,
		"strings.IndexByte":                   natIndexByte,
		"strings.IndexRune":                   natIndexRune,
		"strings.LastIndex":                   natLastIndex,
		"strings.LastIndexByte":               natLastIndexByte,
		"strings.Contains":                    natContains,
		"strings.Count":                       natCount,
		"strings.Join":                        natJoin,
		"strings.Compare":                     natCompare,
		"strings.ReplaceAll":                  natReplaceAll,
		"strings.Replace":                     natReplace,
		"strings.Repeat":                      natRepeat,
		"strings.Clone":                       natIdentity,
		"internal/stringslite.Clone":          natIdentity,
		"strconv.cloneString":                 natIdentity,
		"strings.Map":                         natMap,
		"(*strings.Builder).WriteString":      natBuilderWriteString,
		"(*strings.Builder).WriteByte":        natBuilderWriteByte,
		"(*strings.Builder).WriteRune":        natBuilderWriteRune,
		"(*strings.Builder).Write":            natBuilderWrite,
		"(*strings.Builder).String":           natBuilderString,
		"(*strings.Builder).Len":              natBuilderLen,
		"(*strings.Builder).Grow":             natNop,
		"(*strings.Builder).Reset":            natBuilderReset,
		"strconv.Itoa":                        natItoa,
		"strconv.FormatInt":                   natFormatInt,
		"strconv.Quote":                       natQuote,
		"unicode.IsDigit":                     natUnicodePred(unicode.IsDigit),
		"unicode.IsNumber":                    natUnicodePred(unicode.IsNumber),
		"unicode.IsLetter":                    natUnicodePred(unicode.IsLetter),
		"unicode.IsSpace":                     natUnicodePred(unicode.IsSpace),
		"unicode.IsUpper":                     natUnicodePred(unicode.IsUpper),
		"unicode.IsLower":                     natUnicodePred(unicode.IsLower),
		"unicode.IsPunct":                     natUnicodePred(unicode.IsPunct),
		"unicode.IsControl":                   natUnicodePred(unicode.IsControl),
		"unicode.IsPrint":                     natUnicodePred(unicode.IsPrint),
		"unicode.IsGraphic":                   natUnicodePred(unicode.IsGraphic),
		"unicode.IsSymbol":                    natUnicodePred(unicode.IsSymbol),
		"unicode.ToLower":                     natUnicodeMap(unicode.ToLower),
		"unicode.ToUpper":                     natUnicodeMap(unicode.ToUpper),
		"os.Exit":                             natOsExit,
		"time.Now":                            natNondet("time.Now"),
		"math/rand.Int":                       natNondet("math/rand"),
		"math/rand.Intn":                      natNondet("math/rand"),
	}
}

func (in *Interp) lookupNative(fn *ssa.Function) nativeFn {
	if fn.Pkg == nil && fn.Signature.Recv() == nil {
		// synthetic wrappers etc.
	}
	name := fn.String()
	if n, ok := nativeTable[name]; ok {
		return n
	}
	if strings.HasPrefix(name, in.P.vvPath+".") {
		switch name[len(in.P.vvPath)+1:] {
		case "Assume":
			return natAssume
		case "Assert":
			return natAssert
		case "Epoch":
			return natEpoch
		case "Known":
			return natKnown
		case "Reached":
			return natReached
		case "IsNil":
			return natIsNil
		case "Concurrently":
			return func(in *Interp, fn *ssa.Function, args []Value) Value {
				in.callValue(args[0], nil)
				return nil
			}
		case "Observe":
			return natNop
		}
	}
	return nil
}

func natNop(in *Interp, fn *ssa.Function, args []Value) Value { return nil }

func natIdentity(in *Interp, fn *ssa.Function, args []Value) Value { return args[0] }

func natNondet(what string) nativeFn {
	return func(in *Interp, fn *ssa.Function, args []Value) Value {
		in.note("nondeterminism source called: " + what)
		if in.run != nil {
			in.run.nondet(in, what)
		}
		unsup("nondeterministic call %s", what)
		return nil
	}
}

func natOsExit(in *Interp, fn *ssa.Function, args []Value) Value {
	unsup("os.Exit called")
	return nil
}

// ---------------------------------------------------------------------------------------------
// regexp

func (in *Interp) regexOf(v Value) *RegexObj {
	p := v.(*Ptr)
	if p.P == nil {
		goPanic("nil *regexp.Regexp")
	}
	ro, ok := (*p.P).(*RegexObj)
	if !ok {
		unsup("regexp value is not a compiled pattern")
	}
	return ro
}

func natRegexpCompile(in *Interp, fn *ssa.Function, args []Value) Value {
	pat, ok := args[0].(Str).Concrete()
	if !ok {
		unsup("regexp.MustCompile of symbolic pattern")
	}
	ro, err := compileRegex(pat)
	if err != nil {
		goPanic("regexp.MustCompile: %v", err)
	}
	var v Value = ro
	return &Ptr{P: &v, Stamp: in.newStamp(), Obj: "regexp"}
}

func natRegexpCompile2(in *Interp, fn *ssa.Function, args []Value) Value {
	pat, ok := args[0].(Str).Concrete()
	if !ok {
		unsup("regexp.Compile of symbolic pattern")
	}
	ro, err := compileRegex(pat)
	if err != nil {
		return Tuple{&Ptr{}, in.newError(in.mkStr(err.Error()), true)}
	}
	var v Value = ro
	return Tuple{&Ptr{P: &v, Stamp: in.newStamp(), Obj: "regexp"}, Iface{}}
}

func natRegexpMatchString(in *Interp, fn *ssa.Function, args []Value) Value {
	pat, ok := args[0].(Str).Concrete()
	if !ok {
		unsup("regexp.MatchString of symbolic pattern")
	}
	ro, err := compileRegex(pat)
	if err != nil {
		return Tuple{in.tb.False, in.newError(in.mkStr(err.Error()), true)}
	}
	m := in.rxFind(ro, args[1].(Str).B)
	return Tuple{in.tb.Bool(m != nil), Iface{}}
}

func natFindStringSubmatch(in *Interp, fn *ssa.Function, args []Value) Value {
	ro := in.regexOf(args[0])
	s := args[1].(Str)
	m := in.rxFind(ro, s.B)
	if m == nil {
		return &Slice{Nil: true}
	}
	arr := make([]Value, ro.NCap+1)
	for i := range arr {
		if m[2*i] >= 0 {
			arr[i] = Str{s.B[m[2*i]:m[2*i+1]]}
		} else {
			arr[i] = Str{}
		}
	}
	return &Slice{Arr: arr, Len: len(arr), Cap: len(arr), Stamp: in.newStamp()}
}

func natMatchString(in *Interp, fn *ssa.Function, args []Value) Value {
	ro := in.regexOf(args[0])
	m := in.rxFind(ro, args[1].(Str).B)
	return in.tb.Bool(m != nil)
}

func natFindString(in *Interp, fn *ssa.Function, args []Value) Value {
	ro := in.regexOf(args[0])
	s := args[1].(Str)
	m := in.rxFind(ro, s.B)
	if m == nil {
		return Str{}
	}
	return Str{s.B[m[0]:m[1]]}
}

func natFindStringIndex(in *Interp, fn *ssa.Function, args []Value) Value {
	ro := in.regexOf(args[0])
	s := args[1].(Str)
	m := in.rxFind(ro, s.B)
	if m == nil {
		return &Slice{Nil: true}
	}
	arr := []Value{in.tb.Int(int64(m[0])), in.tb.Int(int64(m[1]))}
	return &Slice{Arr: arr, Len: 2, Cap: 2, Stamp: in.newStamp()}
}

func natRegexpString(in *Interp, fn *ssa.Function, args []Value) Value {
	return in.mkStr(in.regexOf(args[0]).Pat)
}

// ---------------------------------------------------------------------------------------------
// errors

func (in *Interp) newError(msg Str, exact bool) Iface {
	return Iface{T: in.P.errType, V: &ErrObj{Msg: msg, Exact: exact, ID: in.newStamp()}}
}

func natErrorsNew(in *Interp, fn *ssa.Function, args []Value) Value {
	return in.newError(args[0].(Str), true)
}

func natErrorsUnwrap(in *Interp, fn *ssa.Function, args []Value) Value {
	e := args[0].(Iface)
	if eo, ok := e.V.(*ErrObj); ok && eo.Wrap != nil {
		return *eo.Wrap
	}
	return Iface{}
}

func natErrorsIs(in *Interp, fn *ssa.Function, args []Value) Value {
	e, target := args[0].(Iface), args[1].(Iface)
	for i := 0; i < 20; i++ {
		if in.identEq(e, target).IsTrue() {
			return in.tb.True
		}
		eo, ok := e.V.(*ErrObj)
		if !ok || eo.Wrap == nil {
			return in.tb.False
		}
		e = *eo.Wrap
	}
	return in.tb.False
}

// ---------------------------------------------------------------------------------------------
// fmt

// fmtInt renders a symbolic integer in decimal. It forks on sign and digit count and introduces
// digit variables with a global defining constraint (a definitional extension).
func (in *Interp) fmtInt(t *Term) Str {
	tb := in.tb
	if t.op == OConst {
		return in.mkStr(t.val.String())
	}
	neg := false
	if t.lo == nil || t.lo.Sign() < 0 {
		if in.branch(tb.Lt(t, tb.Int(0))) {
			neg = true
			t = tb.Neg(t)
		}
	}
	lo := big.NewInt(0)
	if t.lo != nil && t.lo.Sign() > 0 {
		lo = t.lo
	}
	hi := t.hi
	if hi == nil {
		hi, _ = new(big.Int).SetString("18446744073709551615", 10)
	}
	if hi.Sign() < 0 {
		hi = big.NewInt(0)
	}
	kmin, kmax := len(lo.String()), len(hi.String())
	ten := big.NewInt(10)
	var conds []*Term
	for k := kmin; k <= kmax; k++ {
		lower := new(big.Int).Exp(ten, big.NewInt(int64(k-1)), nil)
		if k == 1 {
			lower = big.NewInt(0)
		}
		upper := new(big.Int).Exp(ten, big.NewInt(int64(k)), nil)
		conds = append(conds, tb.And(tb.Le(tb.Big(lower), t), tb.Lt(t, tb.Big(upper))))
	}
	k := kmin
	if len(conds) > 1 {
		k = kmin + in.fork(conds)
	}
	guard := conds[k-kmin]
	key := fmt.Sprintf("%d/%d", t.id, k)
	digits, ok := in.fmtCache[key]
	if !ok {
		digits = make([]*Term, k)
		sum := tb.Int(0)
		for i := 0; i < k; i++ { // i = position from the left
			d := tb.Var(fmt.Sprintf("fd%d_%d_%d", t.id, k, i), big.NewInt('0'), big.NewInt('9'))
			digits[i] = d
			w := new(big.Int).Exp(ten, big.NewInt(int64(k-1-i)), nil)
			sum = tb.Add(sum, tb.Mul(tb.Sub(d, tb.Int('0')), tb.Big(w)))
		}
		def := tb.Eq(t, sum)
		if k > 1 {
			def = tb.And(def, tb.Ne(digits[0], tb.Int('0')))
		}
		in.side = append(in.side, tb.Implies(guard, def))
		in.fmtCache[key] = digits
	}
	out := digits
	if neg {
		out = append([]*Term{tb.Int('-')}, digits...)
	}
	return Str{out}
}

func (in *Interp) fmtValue(v Value, verb byte) Str {
	switch x := v.(type) {
	case Iface:
		if x.T == nil {
			return in.mkStr("<nil>")
		}
		if verb != 'd' && verb != 'q' && verb != 'c' && verb != 't' {
			if eo, ok := x.V.(*ErrObj); ok {
				return in.errMsg(eo)
			}
			if m := in.findMethod(x.T, "Error"); m != nil {
				return in.call(m, []Value{x.V}, nil).(Str)
			}
			if m := in.findMethod(x.T, "String"); m != nil {
				return in.call(m, []Value{x.V}, nil).(Str)
			}
		}
		return in.fmtTyped(x.V, x.T, verb)
	}
	return in.fmtTyped(v, nil, verb)
}

func (in *Interp) findMethod(t types.Type, name string) *ssa.Function {
	ms := in.P.prog.MethodSets.MethodSet(t)
	for i := 0; i < ms.Len(); i++ {
		sel := ms.At(i)
		if sel.Obj().Name() == name {
			f := in.P.prog.MethodValue(sel)
			if f != nil && f.Signature.Params().Len() == 0 && f.Signature.Results().Len() == 1 && isStringType(f.Signature.Results().At(0).Type()) {
				return f
			}
		}
	}
	return nil
}

func (in *Interp) errMsg(eo *ErrObj) Str {
	if eo.lazy != nil {
		m := eo.lazy()
		eo.Msg = m
		eo.Exact = true
		eo.lazy = nil
	}
	return eo.Msg
}

func (in *Interp) fmtTyped(v Value, t types.Type, verb byte) Str {
	switch x := v.(type) {
	case Str:
		if verb == 'q' {
			return in.quote(x)
		}
		return x
	case *Term:
		if x.sort == SBool {
			if c := x; c.op == OConst {
				return in.mkStr(strconv.FormatBool(c.IsTrue()))
			}
			if in.branch(x) {
				return in.mkStr("true")
			}
			return in.mkStr("false")
		}
		if verb == 'c' {
			return in.runeToString(x)
		}
		return in.fmtInt(x)
	case Float:
		return in.mkStr(fmt.Sprint(float64(x)))
	case *Slice:
		// [a b c]
		out := []*Term{in.tb.Int('[')}
		var et types.Type
		if t != nil {
			if st, ok := t.Underlying().(*types.Slice); ok {
				et = st.Elem()
			}
		}
		for i := 0; i < x.Len; i++ {
			if i > 0 {
				out = append(out, in.tb.Int(' '))
			}
			e := x.Arr[x.Off+i]
			var s Str
			if _, ok := e.(Iface); ok {
				s = in.fmtValue(e, verb)
			} else {
				s = in.fmtTyped(e, et, verb)
			}
			out = append(out, s.B...)
		}
		out = append(out, in.tb.Int(']'))
		return Str{out}
	case *Ptr:
		if t != nil {
			if m := in.findMethod(t, "String"); m != nil && x.P != nil {
				return in.call(m, []Value{x}, nil).(Str)
			}
		}
		if x.P == nil {
			return in.mkStr("<nil>")
		}
		unsup("formatting of pointer value")
	case *ErrObj:
		return in.errMsg(x)
	}
	unsup("formatting of %T with %%%c", v, verb)
	return Str{}
}

func (in *Interp) quote(s Str) Str {
	if c, ok := s.Concrete(); ok {
		return in.mkStr(strconv.Quote(c))
	}
	// symbolic bytes: printable ASCII other than '"' and '\\' are copied verbatim
	var plain ByteSet
	for c := 0x20; c < 0x7f; c++ {
		if c != '"' && c != '\\' {
			plain.Add(c)
		}
	}
	out := []*Term{in.tb.Int('"')}
	for _, b := range s.B {
		if in.branch(in.tb.InSet(b, plain)) {
			out = append(out, b)
			continue
		}
		if c, ok := b.Int64(); ok {
			if c >= 0x80 {
				unsup("quoting of non-ASCII byte")
			}
			q := strconv.Quote(string(rune(c)))
			out = append(out, in.mkStr(q[1:len(q)-1]).B...)
			continue
		}
		// the bytes strconv.Quote writes as a two-character escape, one branch each
		done := false
		for _, c := range []byte{'"', '\\', '\a', '\b', '\f', '\n', '\r', '\t', '\v'} {
			if in.branch(in.tb.Eq(b, in.tb.Int(int64(c)))) {
				q := strconv.Quote(string(rune(c)))
				out = append(out, in.mkStr(q[1:len(q)-1]).B...)
				done = true
				break
			}
		}
		if done {
			continue
		}
		if !in.branch(in.tb.Lt(b, in.tb.Int(0x80))) {
			unsup("quoting of symbolic non-ASCII byte")
		}
		// the remaining control characters and DEL: \xHH with lower-case hex digits
		hex := func(d *Term) *Term {
			return in.tb.Ite(in.tb.Lt(d, in.tb.Int(10)), in.tb.Add(d, in.tb.Int('0')), in.tb.Add(d, in.tb.Int('a'-10)))
		}
		sixteen := big.NewInt(16)
		out = append(out, in.tb.Int('\\'), in.tb.Int('x'), hex(in.tb.DivF(b, sixteen)), hex(in.tb.ModF(b, sixteen)))
	}
	out = append(out, in.tb.Int('"'))
	return Str{out}
}

func (in *Interp) sprintf(format string, args []Value) (Str, *Iface) {
	var out []*Term
	var wrapped *Iface
	ai := 0
	for i := 0; i < len(format); i++ {
		c := format[i]
		if c != '%' {
			out = append(out, in.tb.Int(int64(c)))
			continue
		}
		i++
		if i >= len(format) {
			out = append(out, in.mkStr("%!(NOVERB)").B...)
			break
		}
		// flags and width
		j := i
		for j < len(format) && strings.IndexByte("+-# 0123456789.", format[j]) >= 0 {
			j++
		}
		flags := format[i:j]
		i = j
		if i >= len(format) {
			break
		}
		verb := format[i]
		if verb == '%' {
			out = append(out, in.tb.Int('%'))
			continue
		}
		if ai >= len(args) {
			out = append(out, in.mkStr("%!"+string(verb)+"(MISSING)").B...)
			continue
		}
		arg := args[ai]
		ai++
		switch verb {
		case 's', 'v', 'd', 'q', 't', 'c', 'w':
			if verb == 'w' {
				if e, ok := arg.(Iface); ok {
					ec := e
					wrapped = &ec
				}
				verb = 'v'
			}
			s := in.fmtValue(arg, verb)
			if flags != "" {
				// width / zero padding for concrete-length renderings
				s = in.applyFlags(s, flags, verb)
			}
			out = append(out, s.B...)
		default:
			unsup("fmt verb %%%c", verb)
		}
	}
	if ai < len(args) {
		out = append(out, in.mkStr("%!(EXTRA ...)").B...)
	}
	return Str{out}, wrapped
}

func (in *Interp) applyFlags(s Str, flags string, verb byte) Str {
	zero := false
	left := false
	f := flags
	for len(f) > 0 && (f[0] == '0' || f[0] == '-' || f[0] == '+' || f[0] == ' ' || f[0] == '#') {
		if f[0] == '0' {
			zero = true
		}
		if f[0] == '-' {
			left = true
		}
		if f[0] == '+' && verb == 'v' {
			// %+v: same as %v for our value kinds
		} else if f[0] == '+' || f[0] == '#' || f[0] == ' ' {
			unsup("fmt flag %q", flags)
		}
		f = f[1:]
	}
	if f == "" {
		return s
	}
	if strings.Contains(f, ".") {
		unsup("fmt precision %q", flags)
	}
	w, err := strconv.Atoi(f)
	if err != nil {
		unsup("fmt width %q", flags)
	}
	if len(s.B) >= w {
		return s
	}
	pad := in.tb.Int(' ')
	if zero && !left {
		pad = in.tb.Int('0')
		if len(s.B) > 0 {
			if c, ok := s.B[0].Int64(); ok && c == '-' {
				unsup("zero padding of negative number")
			}
		}
	}
	padding := make([]*Term, w-len(s.B))
	for i := range padding {
		padding[i] = pad
	}
	if left {
		return Str{append(append([]*Term{}, s.B...), padding...)}
	}
	return Str{append(padding, s.B...)}
}

func variadic(v Value) []Value {
	s := v.(*Slice)
	out := make([]Value, s.Len)
	for i := 0; i < s.Len; i++ {
		out[i] = s.Arr[s.Off+i]
	}
	return out
}

func natSprintf(in *Interp, fn *ssa.Function, args []Value) Value {
	format, ok := args[0].(Str).Concrete()
	if !ok {
		unsup("Sprintf with symbolic format")
	}
	s, _ := in.sprintf(format, variadic(args[1]))
	return s
}

func natSprint(in *Interp, fn *ssa.Function, args []Value) Value {
	var out []*Term
	vs := variadic(args[0])
	for i, a := range vs {
		if i > 0 {
			// Sprint adds spaces between operands when neither is a string
			_, s1 := unwrapStr(vs[i-1])
			_, s2 := unwrapStr(a)
			if !s1 && !s2 {
				out = append(out, in.tb.Int(' '))
			}
		}
		out = append(out, in.fmtValue(a, 'v').B...)
	}
	return Str{out}
}

func unwrapStr(v Value) (Str, bool) {
	if i, ok := v.(Iface); ok {
		v = i.V
	}
	s, ok := v.(Str)
	return s, ok
}

func natErrorf(in *Interp, fn *ssa.Function, args []Value) Value {
	format, ok := args[0].(Str).Concrete()
	if !ok {
		unsup("Errorf with symbolic format")
	}
	vargs := variadic(args[1])
	eo := &ErrObj{ID: in.newStamp()}
	// The message is rendered lazily: most error messages are never inspected, and rendering
	// symbolic integers forks.
	eo.lazy = func() Str {
		s, _ := in.sprintf(format, vargs)
		return s
	}
	if strings.Contains(format, "%w") {
		for _, a := range vargs {
			if e, ok := a.(Iface); ok && e.T != nil && types.Implements(e.T, in.P.errIface) {
				ec := e
				eo.Wrap = &ec
			}
		}
	}
	return Iface{T: in.P.errType, V: eo}
}

func (in *Interp) writeTo(w Value, s Str) Value {
	arr := make([]Value, len(s.B))
	for i, b := range s.B {
		arr[i] = b
	}
	buf := &Slice{Arr: arr, Len: len(arr), Cap: len(arr), Stamp: in.newStamp()}
	ifc := w.(Iface)
	if ifc.T == nil {
		goPanic("Fprintf to nil writer")
	}
	m := in.P.prog.LookupMethod(ifc.T, nil, "Write")
	if m == nil {
		unsup("writer %s has no Write", ifc.T)
	}
	return in.call(m, []Value{ifc.V, buf}, nil)
}

func natFprintf(in *Interp, fn *ssa.Function, args []Value) Value {
	format, ok := args[1].(Str).Concrete()
	if !ok {
		unsup("Fprintf with symbolic format")
	}
	s, _ := in.sprintf(format, variadic(args[2]))
	return in.writeTo(args[0], s)
}

func natFprintln(in *Interp, fn *ssa.Function, args []Value) Value {
	var out []*Term
	for i, a := range variadic(args[1]) {
		if i > 0 {
			out = append(out, in.tb.Int(' '))
		}
		out = append(out, in.fmtValue(a, 'v').B...)
	}
	out = append(out, in.tb.Int('\n'))
	return in.writeTo(args[0], Str{out})
}

func natFprint(in *Interp, fn *ssa.Function, args []Value) Value {
	s := natSprint(in, fn, args[1:]).(Str)
	return in.writeTo(args[0], s)
}

// ---------------------------------------------------------------------------------------------
// strings

var upperSet = rangeSet('A', 'Z')
var lowerSet = rangeSet('a', 'z')

func (in *Interp) requireASCII(s Str, what string) {
	for _, b := range s.B {
		c := in.tb.Lt(b, in.tb.Int(128))
		if c.IsTrue() {
			continue
		}
		if !in.branch(c) {
			if cs, ok := s.Concrete(); ok {
				_ = cs
				return
			}
			unsup("%s on symbolic non-ASCII input", what)
		}
	}
}

func natToLower(in *Interp, fn *ssa.Function, args []Value) Value {
	return in.caseMap(args[0].(Str), unicode.ToLower, upperSet, 32, strings.ToLower, "strings.ToLower")
}

func natToUpper(in *Interp, fn *ssa.Function, args []Value) Value {
	return in.caseMap(args[0].(Str), unicode.ToUpper, lowerSet, -32, strings.ToUpper, "strings.ToUpper")
}

// caseMap: strings.ToLower / ToUpper. ASCII bytes shift by +-32 inside their letter class. As soon
// as the string is not pure ASCII the real functions go through strings.Map: every rune is mapped
// and re-encoded and every invalid byte becomes U+FFFD; a symbolic two-byte rune is mapped by its
// delta groups (runes whose image is not a two-byte rune are split off one by one).
func (in *Interp) caseMap(s Str, f func(rune) rune, asciiFrom ByteSet, asciiDelta int64, whole func(string) string, what string) Value {
	if c, ok := s.Concrete(); ok {
		return in.mkStr(whole(c))
	}
	tb := in.tb
	ascii := true
	for _, b := range s.B {
		if !in.branch(tb.Lt(b, tb.Int(128))) {
			ascii = false
			break
		}
	}
	out := make([]*Term, 0, len(s.B))
	if ascii {
		for _, b := range s.B {
			out = append(out, tb.Ite(tb.InSet(b, asciiFrom), tb.Add(b, tb.Int(asciiDelta)), b))
		}
		return Str{out}
	}
	for i := 0; i < len(s.B); {
		b := s.B[i]
		if in.branch(tb.Lt(b, tb.Int(128))) {
			out = append(out, tb.Ite(tb.InSet(b, asciiFrom), tb.Add(b, tb.Int(asciiDelta)), b))
			i++
			continue
		}
		r, w := in.decodeRune(s.B[i:])
		i += w
		if c, ok := r.Int64(); ok {
			out = append(out, in.mkStr(string(f(rune(c)))).B...)
			continue
		}
		lo, hi, ok := in.runeRange(r)
		if !ok || w != 2 || lo < 0x80 || hi > 0x7FF {
			unsup("%s on a symbolic three- or four-byte UTF-8 sequence", what)
		}
		// runes whose image leaves the two-byte range
		done := false
		for c := lo; c <= hi && !done; c++ {
			if m := f(rune(c)); m < 0x80 || m > 0x7FF {
				if in.branch(tb.Eq(r, tb.Int(c))) {
					out = append(out, in.mkStr(string(m)).B...)
					done = true
				}
			}
		}
		if done {
			continue
		}
		res := in.mapRuneTerm(r, lo, hi, f, func(m rune) bool { return m >= 0x80 && m <= 0x7FF })
		out = append(out, tb.Add(tb.Int(0xC0), tb.DivF(res, big.NewInt(64))), tb.Add(tb.Int(0x80), tb.ModF(res, big.NewInt(64))))
	}
	return Str{out}
}

var asciiSpaceSet = func() ByteSet {
	var s ByteSet
	for _, c := range []int{'\t', '\n', '\v', '\f', '\r', ' '} {
		s.Add(c)
	}
	return s
}()

// isSpaceAt: whether the byte is ASCII white space; bytes >= 0x80 must be concrete.
func (in *Interp) isSpaceByte(s Str, i int) bool {
	b := s.B[i]
	if c, ok := b.Int64(); ok && c >= 0x80 {
		// concrete non-ASCII: 0x85 and 0xA0 are spaces only as runes U+0085/U+00A0 (2-byte encodings C2 85 / C2 A0)
		return false
	}
	return in.branch(in.tb.InSet(b, asciiSpaceSet))
}

func natTrimSpace(in *Interp, fn *ssa.Function, args []Value) Value {
	s := args[0].(Str)
	if c, ok := s.Concrete(); ok {
		t := strings.TrimSpace(c)
		off := strings.Index(c, t)
		if t == "" {
			return Str{}
		}
		return Str{s.B[off : off+len(t)]}
	}
	// ASCII white space byte by byte; the non-ASCII white space runes (U+0085, U+00A0, U+1680,
	// U+2000-200A, U+2028, U+2029, U+202F, U+205F, U+3000) by their exact UTF-8 byte sequences at
	// either end (any other byte >= 0x80 there starts or ends a rune that is not white space)
	lo, hi := 0, len(s.B)
	for lo < hi {
		w := in.spaceSeq(s.B[lo:hi], true)
		if w == 0 {
			break
		}
		lo += w
	}
	for hi > lo {
		w := in.spaceSeq(s.B[lo:hi], false)
		if w == 0 {
			break
		}
		hi -= w
	}
	return Str{s.B[lo:hi]}
}

var nonASCIISpaceSeqs = func() [][]byte {
	var out [][]byte
	for _, r := range []rune{0x85, 0xA0, 0x1680, 0x2028, 0x2029, 0x202F, 0x205F, 0x3000} {
		out = append(out, []byte(string(r)))
	}
	for r := rune(0x2000); r <= 0x200A; r++ {
		out = append(out, []byte(string(r)))
	}
	return out
}()

// spaceSeq: width of the white space rune at the front (or back) of b, 0 if there is none.
func (in *Interp) spaceSeq(b []*Term, front bool) int {
	if len(b) == 0 {
		return 0
	}
	edge := b[0]
	if !front {
		edge = b[len(b)-1]
	}
	if in.branch(in.tb.Lt(edge, in.tb.Int(0x80))) {
		if in.branch(in.tb.InSet(edge, asciiSpaceSet)) {
			return 1
		}
		return 0
	}
	for _, seq := range nonASCIISpaceSeqs {
		if len(seq) > len(b) {
			continue
		}
		win := b[:len(seq)]
		if !front {
			win = b[len(b)-len(seq):]
		}
		cond := in.tb.True
		for i, c := range seq {
			cond = in.tb.And(cond, in.tb.Eq(win[i], in.tb.Int(int64(c))))
		}
		if cond.IsFalse() {
			continue
		}
		if in.branch(cond) {
			return len(seq)
		}
	}
	return 0
}

func (in *Interp) matchAt(s Str, i int, sub Str) *Term {
	if i+len(sub.B) > len(s.B) {
		return in.tb.False
	}
	return in.strEq(Str{s.B[i : i+len(sub.B)]}, sub)
}

func (in *Interp) strSlice(parts []Str) Value {
	arr := make([]Value, len(parts))
	for i, p := range parts {
		arr[i] = p
	}
	return &Slice{Arr: arr, Len: len(arr), Cap: len(arr), Stamp: in.newStamp()}
}

func (in *Interp) split(s, sep Str, n int) Value {
	if n == 0 {
		return &Slice{Nil: true}
	}
	if len(sep.B) == 0 {
		// explode into UTF-8 sequences
		var parts []Str
		for i := 0; i < len(s.B); {
			if n > 0 && len(parts) == n-1 {
				parts = append(parts, Str{s.B[i:]})
				i = len(s.B)
				break
			}
			_, w := in.decodeRune(s.B[i:])
			parts = append(parts, Str{s.B[i : i+w]})
			i += w
		}
		return in.strSlice(parts)
	}
	var parts []Str
	start := 0
	i := 0
	for i+len(sep.B) <= len(s.B) {
		if n > 0 && len(parts) == n-1 {
			break
		}
		if in.branch(in.matchAt(s, i, sep)) {
			parts = append(parts, Str{s.B[start:i]})
			i += len(sep.B)
			start = i
		} else {
			i++
		}
	}
	parts = append(parts, Str{s.B[start:]})
	return in.strSlice(parts)
}

func natSplit(in *Interp, fn *ssa.Function, args []Value) Value {
	return in.split(args[0].(Str), args[1].(Str), -1)
}

func natSplitN(in *Interp, fn *ssa.Function, args []Value) Value {
	n := in.concretizeInt(args[2].(*Term), "SplitN count")
	return in.split(args[0].(Str), args[1].(Str), int(n))
}

func natFields(in *Interp, fn *ssa.Function, args []Value) Value {
	s := args[0].(Str)
	if c, ok := s.Concrete(); ok {
		var parts []Str
		off := 0
		for _, f := range strings.Fields(c) {
			i := strings.Index(c[off:], f) + off
			parts = append(parts, Str{s.B[i : i+len(f)]})
			off = i + len(f)
		}
		return in.strSlice(parts)
	}
	// white space is found byte-wise: ASCII white space, or one of the non-ASCII white space runes by its
	// exact UTF-8 sequence (UTF-8 is self-synchronising, so such a sequence never starts inside a rune)
	var parts []Str
	start := -1
	for i := 0; i < len(s.B); {
		if w := in.spaceSeq(s.B[i:], true); w > 0 {
			if start >= 0 {
				parts = append(parts, Str{s.B[start:i]})
				start = -1
			}
			i += w
			continue
		}
		if start < 0 {
			start = i
		}
		i++
	}
	if start >= 0 {
		parts = append(parts, Str{s.B[start:]})
	}
	return in.strSlice(parts)
}

func (in *Interp) indexTerm(s, sub Str, last bool) *Term {
	tb := in.tb
	res := tb.Int(-1)
	n := len(s.B) - len(sub.B)
	if n < 0 {
		return res
	}
	if !last {
		for i := n; i >= 0; i-- {
			res = tb.Ite(in.matchAt(s, i, sub), tb.Int(int64(i)), res)
		}
	} else {
		for i := 0; i <= n; i++ {
			res = tb.Ite(in.matchAt(s, i, sub), tb.Int(int64(i)), res)
		}
	}
	return res
}

func natIndex(in *Interp, fn *ssa.Function, args []Value) Value {
	return in.indexTerm(args[0].(Str), args[1].(Str), false)
}
func natLastIndex(in *Interp, fn *ssa.Function, args []Value) Value {
	return in.indexTerm(args[0].(Str), args[1].(Str), true)
}
func natIndexByte(in *Interp, fn *ssa.Function, args []Value) Value {
	return in.indexTerm(args[0].(Str), Str{[]*Term{args[1].(*Term)}}, false)
}
func natLastIndexByte(in *Interp, fn *ssa.Function, args []Value) Value {
	return in.indexTerm(args[0].(Str), Str{[]*Term{args[1].(*Term)}}, true)
}
func natIndexRune(in *Interp, fn *ssa.Function, args []Value) Value {
	r := args[1].(*Term)
	if c, ok := r.Int64(); ok && c >= 0x80 {
		return in.indexTerm(args[0].(Str), in.mkStr(string(rune(c))), false)
	}
	if !in.branch(in.tb.And(in.tb.Le(in.tb.Int(0), r), in.tb.Lt(r, in.tb.Int(0x80)))) {
		c := in.concretizeInt(r, "IndexRune rune")
		return in.indexTerm(args[0].(Str), in.mkStr(string(rune(c))), false)
	}
	return in.indexTerm(args[0].(Str), Str{[]*Term{r}}, false)
}

func natContains(in *Interp, fn *ssa.Function, args []Value) Value {
	s, sub := args[0].(Str), args[1].(Str)
	r := in.tb.False
	for i := len(s.B) - len(sub.B); i >= 0; i-- {
		r = in.tb.Or(in.matchAt(s, i, sub), r)
	}
	return r
}

func natCount(in *Interp, fn *ssa.Function, args []Value) Value {
	s, sub := args[0].(Str), args[1].(Str)
	if len(sub.B) == 0 {
		// number of runes + 1
		n := 0
		for i := 0; i < len(s.B); {
			_, w := in.decodeRune(s.B[i:])
			i += w
			n++
		}
		return in.tb.Int(int64(n + 1))
	}
	if len(sub.B) == 1 {
		r := in.tb.Int(0)
		for i := range s.B {
			r = in.tb.Add(r, in.tb.Ite(in.tb.Eq(s.B[i], sub.B[0]), in.tb.Int(1), in.tb.Int(0)))
		}
		return r
	}
	n := 0
	for i := 0; i+len(sub.B) <= len(s.B); {
		if in.branch(in.matchAt(s, i, sub)) {
			n++
			i += len(sub.B)
		} else {
			i++
		}
	}
	return in.tb.Int(int64(n))
}

func natJoin(in *Interp, fn *ssa.Function, args []Value) Value {
	elems := args[0].(*Slice)
	sep := args[1].(Str)
	var out []*Term
	for i := 0; i < elems.Len; i++ {
		if i > 0 {
			out = append(out, sep.B...)
		}
		out = append(out, elems.Arr[elems.Off+i].(Str).B...)
	}
	return Str{out}
}

func natCompare(in *Interp, fn *ssa.Function, args []Value) Value {
	a, b := args[0].(Str), args[1].(Str)
	tb := in.tb
	return tb.Ite(in.strEq(a, b), tb.Int(0), tb.Ite(in.strLt(a, b), tb.Int(-1), tb.Int(1)))
}

func (in *Interp) replace(s, old, new Str, n int) Str {
	if len(old.B) == 0 {
		if c, ok := s.Concrete(); ok {
			if nc, ok := new.Concrete(); ok {
				return in.mkStr(strings.Replace(c, "", nc, n))
			}
		}
		unsup("strings.Replace with empty old on symbolic input")
	}
	var out []*Term
	cnt := 0
	i := 0
	for i < len(s.B) {
		if (n < 0 || cnt < n) && i+len(old.B) <= len(s.B) && in.branch(in.matchAt(s, i, old)) {
			out = append(out, new.B...)
			i += len(old.B)
			cnt++
		} else {
			out = append(out, s.B[i])
			i++
		}
	}
	return Str{out}
}

func natReplaceAll(in *Interp, fn *ssa.Function, args []Value) Value {
	return in.replace(args[0].(Str), args[1].(Str), args[2].(Str), -1)
}
func natReplace(in *Interp, fn *ssa.Function, args []Value) Value {
	n := in.concretizeInt(args[3].(*Term), "Replace count")
	return in.replace(args[0].(Str), args[1].(Str), args[2].(Str), int(n))
}

func natRepeat(in *Interp, fn *ssa.Function, args []Value) Value {
	s := args[0].(Str)
	n := in.concretizeInt(args[1].(*Term), "Repeat count")
	if n < 0 {
		goPanic("strings: negative Repeat count")
	}
	if n*int64(len(s.B)) > 1<<16 {
		unsup("strings.Repeat too large")
	}
	var out []*Term
	for i := int64(0); i < n; i++ {
		out = append(out, s.B...)
	}
	return Str{out}
}

func natMap(in *Interp, fn *ssa.Function, args []Value) Value {
	f := args[0]
	s := args[1].(Str)
	var out []*Term
	for i := 0; i < len(s.B); {
		r, w := in.decodeRune(s.B[i:])
		i += w
		m := in.callValue(f, []Value{r}).(*Term)
		if in.branch(in.tb.Lt(m, in.tb.Int(0))) {
			continue
		}
		out = append(out, in.runeToString(m).B...)
	}
	return Str{out}
}

// strings.Builder: struct{addr *Builder; buf []byte}
func (in *Interp) builderBuf(v Value) (*Value, *Ptr) {
	p := v.(*Ptr)
	if p.P == nil {
		goPanic("nil *strings.Builder")
	}
	st := (*p.P).(Struct)
	return &st[1], p
}

func (in *Interp) builderAppend(v Value, bs []*Term, what string) {
	cell, p := in.builderBuf(v)
	in.checkWrite(p.Stamp, what)
	old := (*cell).(*Slice)
	arr := make([]Value, 0, old.Len+len(bs))
	for i := 0; i < old.Len; i++ {
		arr = append(arr, old.Arr[old.Off+i])
	}
	for _, b := range bs {
		arr = append(arr, b)
	}
	*cell = &Slice{Arr: arr, Len: len(arr), Cap: len(arr), Stamp: p.Stamp}
}

func natBuilderWriteString(in *Interp, fn *ssa.Function, args []Value) Value {
	s := args[1].(Str)
	in.builderAppend(args[0], s.B, "Builder.WriteString")
	return Tuple{in.tb.Int(int64(len(s.B))), Iface{}}
}
func natBuilderWrite(in *Interp, fn *ssa.Function, args []Value) Value {
	s := args[1].(*Slice)
	bs := make([]*Term, s.Len)
	for i := range bs {
		bs[i] = s.Arr[s.Off+i].(*Term)
	}
	in.builderAppend(args[0], bs, "Builder.Write")
	return Tuple{in.tb.Int(int64(len(bs))), Iface{}}
}
func natBuilderWriteByte(in *Interp, fn *ssa.Function, args []Value) Value {
	in.builderAppend(args[0], []*Term{args[1].(*Term)}, "Builder.WriteByte")
	return Iface{}
}
func natBuilderWriteRune(in *Interp, fn *ssa.Function, args []Value) Value {
	s := in.runeToString(args[1].(*Term))
	in.builderAppend(args[0], s.B, "Builder.WriteRune")
	return Tuple{in.tb.Int(int64(len(s.B))), Iface{}}
}
func natBuilderString(in *Interp, fn *ssa.Function, args []Value) Value {
	cell, _ := in.builderBuf(args[0])
	s := (*cell).(*Slice)
	out := make([]*Term, s.Len)
	for i := range out {
		out[i] = s.Arr[s.Off+i].(*Term)
	}
	return Str{out}
}
func natBuilderLen(in *Interp, fn *ssa.Function, args []Value) Value {
	cell, _ := in.builderBuf(args[0])
	return in.tb.Int(int64((*cell).(*Slice).Len))
}
func natBuilderReset(in *Interp, fn *ssa.Function, args []Value) Value {
	cell, p := in.builderBuf(args[0])
	in.checkWrite(p.Stamp, "Builder.Reset")
	*cell = &Slice{Nil: true}
	return nil
}

// ---------------------------------------------------------------------------------------------
// strconv / unicode

func natItoa(in *Interp, fn *ssa.Function, args []Value) Value {
	return in.fmtInt(args[0].(*Term))
}

func natFormatInt(in *Interp, fn *ssa.Function, args []Value) Value {
	base := in.concretizeInt(args[1].(*Term), "FormatInt base")
	if base != 10 {
		if c, ok := args[0].(*Term).Int64(); ok {
			return in.mkStr(strconv.FormatInt(c, int(base)))
		}
		unsup("FormatInt base %d of symbolic value", base)
	}
	return in.fmtInt(args[0].(*Term))
}

func natQuote(in *Interp, fn *ssa.Function, args []Value) Value {
	return in.quote(args[0].(Str))
}

func natUnicodePred(f func(rune) bool) nativeFn {
	var set ByteSet
	for c := 0; c < 256; c++ {
		if f(rune(c)) {
			set.Add(c)
		}
	}
	return func(in *Interp, fn *ssa.Function, args []Value) Value {
		r := args[0].(*Term)
		if c, ok := r.Int64(); ok {
			return in.tb.Bool(f(rune(c)))
		}
		if r.lo != nil && r.hi != nil && r.lo.Sign() >= 0 && r.hi.Cmp(big255) <= 0 {
			return in.tb.InSet(r, set)
		}
		if in.branch(in.tb.And(in.tb.Le(in.tb.Int(0), r), in.tb.Le(r, in.tb.Int(255)))) {
			return in.tb.InSet(r, set)
		}
		// a symbolic rune above 255 with known bounds (decoded from symbolic UTF-8 bytes): the
		// predicate as a union of code-point ranges
		if lo, hi, ok := in.runeRange(r); ok && hi-lo <= 0x10000 && lo >= 0 {
			res := in.tb.False
			start := int64(-1)
			for c := lo; c <= hi+1; c++ {
				on := c <= hi && f(rune(c))
				if on && start < 0 {
					start = c
				}
				if !on && start >= 0 {
					res = in.tb.Or(res, in.tb.And(in.tb.Le(in.tb.Int(start), r), in.tb.Le(r, in.tb.Int(c-1))))
					start = -1
				}
			}
			return res
		}
		c := in.concretizeInt(r, "unicode predicate argument")
		return in.tb.Bool(f(rune(c)))
	}
}

// mapRuneTerm: f applied to a symbolic rune in [lo, hi] as an ite over the delta groups of f
// (runes with the same f(c)-c); runes whose image fails keep() are left unmapped (the caller
// has split them off).
func (in *Interp) mapRuneTerm(r *Term, lo, hi int64, f func(rune) rune, keep func(rune) bool) *Term {
	tb := in.tb
	type span struct{ lo, hi int64 }
	groups := map[int64][]span{}
	for c := lo; c <= hi; c++ {
		m := f(rune(c))
		if !keep(m) {
			continue
		}
		d := int64(m) - c
		if d == 0 {
			continue
		}
		g := groups[d]
		if n := len(g); n > 0 && g[n-1].hi == c-1 {
			g[n-1].hi = c
		} else {
			g = append(g, span{c, c})
		}
		groups[d] = g
	}
	var deltas []int64
	for d := range groups {
		deltas = append(deltas, d)
	}
	sort.Slice(deltas, func(i, j int) bool { return deltas[i] < deltas[j] })
	res := r
	for _, d := range deltas {
		cond := tb.False
		for _, sp := range groups[d] {
			cond = tb.Or(cond, tb.And(tb.Le(tb.Int(sp.lo), r), tb.Le(r, tb.Int(sp.hi))))
		}
		res = tb.Ite(cond, tb.Add(r, tb.Int(d)), res)
	}
	return res
}

func natUnicodeMap(f func(rune) rune) nativeFn {
	return func(in *Interp, fn *ssa.Function, args []Value) Value {
		r := args[0].(*Term)
		if c, ok := r.Int64(); ok {
			return in.tb.Int(int64(f(rune(c))))
		}
		if lo, hi, ok := in.runeRange(r); ok && lo >= 0x80 && hi-lo <= 0x800 {
			return in.mapRuneTerm(r, lo, hi, f, func(rune) bool { return true })
		}
		if !(r.lo != nil && r.hi != nil && r.lo.Sign() >= 0 && r.hi.Cmp(big.NewInt(127)) <= 0) {
			if !in.branch(in.tb.And(in.tb.Le(in.tb.Int(0), r), in.tb.Le(r, in.tb.Int(127)))) {
				c := in.concretizeInt(r, "unicode mapping argument")
				return in.tb.Int(int64(f(rune(c))))
			}
		}
		// ASCII: piecewise shift
		res := r
		var up, low ByteSet
		for c := 0; c < 128; c++ {
			d := int(f(rune(c))) - c
			if d == 32 {
				up.Add(c)
			} else if d == -32 {
				low.Add(c)
			} else if d != 0 {
				unsup("unexpected ASCII case mapping")
			}
		}
		if !up.Empty() {
			res = in.tb.Ite(in.tb.InSet(r, up), in.tb.Add(r, in.tb.Int(32)), res)
		}
		if !low.Empty() {
			res = in.tb.Ite(in.tb.InSet(r, low), in.tb.Add(r, in.tb.Int(-32)), res)
		}
		return res
	}
}

func (in *Interp) callNativeValue(cl *Closure, args []Value) Value {
	unsup("native function value %s", cl.Native)
	return nil
}

func natIsNil(in *Interp, fn *ssa.Function, args []Value) Value {
	x := args[0].(Iface)
	if x.T == nil {
		return in.tb.True
	}
	switch v := x.V.(type) {
	case *Ptr:
		return in.tb.Bool(v.P == nil)
	case *Slice:
		return in.tb.Bool(v.Nil)
	case *Map:
		return in.tb.Bool(v.Nil)
	case *Closure:
		return in.tb.Bool(v.Fn == nil && v.Builtin == nil && v.Native == "")
	}
	return in.tb.False
}

func init() {
	nativeTable["strings.IndexAny"] = natIndexAny
	nativeTable["strings.ContainsAny"] = func(in *Interp, fn *ssa.Function, args []Value) Value {
		idx := natIndexAny(in, fn, args).(*Term)
		return in.tb.Le(in.tb.Int(0), idx)
	}
	nativeTable["strings.ContainsRune"] = func(in *Interp, fn *ssa.Function, args []Value) Value {
		idx := natIndexRune(in, fn, args).(*Term)
		return in.tb.Le(in.tb.Int(0), idx)
	}
	nativeTable["strings.TrimLeft"] = func(in *Interp, fn *ssa.Function, args []Value) Value {
		return in.trimSet(args[0].(Str), args[1].(Str), true, false)
	}
	nativeTable["strings.TrimRight"] = func(in *Interp, fn *ssa.Function, args []Value) Value {
		return in.trimSet(args[0].(Str), args[1].(Str), false, true)
	}
	nativeTable["strings.Trim"] = func(in *Interp, fn *ssa.Function, args []Value) Value {
		return in.trimSet(args[0].(Str), args[1].(Str), true, true)
	}
}

func (in *Interp) asciiCutset(chars Str, what string) ByteSet {
	cs, ok := chars.Concrete()
	if !ok {
		unsup("%s with symbolic character set", what)
	}
	var set ByteSet
	for i := 0; i < len(cs); i++ {
		if cs[i] >= 0x80 {
			unsup("%s with non-ASCII character set", what)
		}
		set.Add(int(cs[i]))
	}
	return set
}

func natIndexAny(in *Interp, fn *ssa.Function, args []Value) Value {
	s := args[0].(Str)
	set := in.asciiCutset(args[1].(Str), "strings.IndexAny")
	tb := in.tb
	res := tb.Int(-1)
	for i := len(s.B) - 1; i >= 0; i-- {
		res = tb.Ite(tb.InSet(s.B[i], set), tb.Int(int64(i)), res)
	}
	return res
}

func (in *Interp) trimSet(s, chars Str, left, right bool) Value {
	set := in.asciiCutset(chars, "strings.Trim")
	lo, hi := 0, len(s.B)
	if left {
		for lo < hi && in.branch(in.tb.InSet(s.B[lo], set)) {
			lo++
		}
	}
	if right {
		for hi > lo && in.branch(in.tb.InSet(s.B[hi-1], set)) {
			hi--
		}
	}
	return Str{s.B[lo:hi]}
}
