package main

import (
	"fmt"
	"go/types"
	"os"
	"path/filepath"
	"sort"
	"strings"
	"sync"

	"golang.org/x/tools/go/packages"
	"golang.org/x/tools/go/ssa"
	"golang.org/x/tools/go/ssa/ssautil"
)

// repoDir is the tree under check: /repo, or $VX_REPO (used only to try the checks on a scratch
// worktree with a seeded change while other runs use /repo).
var repoDir = func() string {
	if d := os.Getenv("VX_REPO"); d != "" {
		return d
	}
	return "/repo"
}()
const modPath = "github.com/alowayed/go-univers"

type Program struct {
	prog           *ssa.Program
	pkgs           map[string]*ssa.Package
	vvPath         string
	modPath        string
	errType        types.Type
	errIface       *types.Interface
	overrides      map[string]*ssa.Function
	noMergeAll     bool
	noMemo         bool
	mergeableCache sync.Map
	maxMergedPaths int
	overlay        map[string][]byte
	overlayFiles   map[string]string // virtual path -> real path (for go test -overlay)
	loadSeconds    float64
}

func (p *Program) override(fn *ssa.Function) *ssa.Function {
	if len(p.overrides) == 0 {
		return nil
	}
	return p.overrides[fn.String()]
}

// harnessOverlay maps every file under /verif/harness/<rel>/ to /repo/<rel>/ .
// Directory layout: /verif/harness/pkg/zzvv/vv.go -> /repo/pkg/zzvv/vv.go, etc.
func harnessOverlay(root string) (map[string][]byte, map[string]string, error) {
	ov := map[string][]byte{}
	files := map[string]string{}
	err := filepath.Walk(root, func(path string, info os.FileInfo, err error) error {
		if err != nil {
			return err
		}
		if info.IsDir() || !strings.HasSuffix(path, ".go") {
			return nil
		}
		rel, _ := filepath.Rel(root, path)
		data, err := os.ReadFile(path)
		if err != nil {
			return err
		}
		virt := filepath.Join(repoDir, rel)
		ov[virt] = data
		files[virt] = path
		return nil
	})
	return ov, files, err
}

func goEnv() []string {
	env := os.Environ()
	out := env[:0:0]
	for _, e := range env {
		if strings.HasPrefix(e, "GOSUMDB=") || strings.HasPrefix(e, "GOTOOLCHAIN=") || strings.HasPrefix(e, "GOFLAGS=") || strings.HasPrefix(e, "GOPROXY=") {
			continue
		}
		out = append(out, e)
	}
	out = append(out, "GOFLAGS=-mod=mod", "GOPROXY=off", "GOWORK=off")
	return out
}

func LoadProgram(harnessRoot string, patterns []string, extraOverlay map[string][]byte) (*Program, error) {
	ov, files, err := harnessOverlay(harnessRoot)
	if err != nil {
		return nil, err
	}
	for k, v := range extraOverlay {
		ov[k] = v
	}
	cfg := &packages.Config{
		Mode:    packages.LoadAllSyntax,
		Dir:     repoDir,
		Overlay: ov,
		Env:     goEnv(),
		Tests:   false,
	}
	pkgs, err := packages.Load(cfg, patterns...)
	if err != nil {
		return nil, err
	}
	var errs []string
	packages.Visit(pkgs, nil, func(p *packages.Package) {
		for _, e := range p.Errors {
			errs = append(errs, e.Error())
		}
	})
	if len(errs) > 0 {
		sort.Strings(errs)
		if len(errs) > 10 {
			errs = errs[:10]
		}
		return nil, fmt.Errorf("package load errors:\n%s", strings.Join(errs, "\n"))
	}
	prog, _ := ssautil.AllPackages(pkgs, ssa.InstantiateGenerics)
	prog.Build()
	p := &Program{prog: prog, pkgs: map[string]*ssa.Package{}, modPath: modPath, vvPath: modPath + "/pkg/zzvv",
		overrides: map[string]*ssa.Function{}, maxMergedPaths: 50000, overlay: ov, overlayFiles: files}
	for _, sp := range prog.AllPackages() {
		p.pkgs[sp.Pkg.Path()] = sp
	}
	if ep := p.pkgs["errors"]; ep != nil {
		if t := ep.Type("errorString"); t != nil {
			p.errType = types.NewPointer(t.Type())
		}
	}
	p.errIface = types.Universe.Lookup("error").Type().Underlying().(*types.Interface)
	if p.errType == nil {
		return nil, fmt.Errorf("errors.errorString not found")
	}
	return p, nil
}

func (p *Program) Func(pkgPath, name string) *ssa.Function {
	sp := p.pkgs[pkgPath]
	if sp == nil {
		return nil
	}
	return sp.Func(name)
}
