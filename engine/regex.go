package main

// Symbolic regexp matching: a priority-ordered backtracking matcher over regexp/syntax trees
// (= Go's leftmost-first semantics), run over symbolic bytes. Every character test is a branch on
// "byte in class", decided by the byte's domain or forked.

import (
	"regexp/syntax"
	"unicode"
)

type RegexObj struct {
	Pat  string
	Re   *syntax.Regexp
	NCap int
}

func compileRegex(pat string) (*RegexObj, error) {
	re, err := syntax.Parse(pat, syntax.Perl)
	if err != nil {
		return nil, err
	}
	n := re.MaxCap()
	re = re.Simplify()
	return &RegexObj{Pat: pat, Re: re, NCap: n}, nil
}

type rxMatcher struct {
	in   *Interp
	s    []*Term
	caps []int
	step int
}

func classSet(runes []rune, fold bool) (ByteSet, func(rune) bool) {
	var set ByteSet
	for i := 0; i+1 < len(runes); i += 2 {
		lo, hi := runes[i], runes[i+1]
		for r := lo; r <= hi && r < 128; r++ {
			set.Add(int(r))
		}
	}
	rs := runes
	return set, func(r rune) bool {
		for i := 0; i+1 < len(rs); i += 2 {
			if rs[i] <= r && r <= rs[i+1] {
				return true
			}
		}
		return false
	}
}

func literalSet(r rune, fold bool) (ByteSet, func(rune) bool) {
	var set ByteSet
	variants := []rune{r}
	if fold {
		for f := unicode.SimpleFold(r); f != r; f = unicode.SimpleFold(f) {
			variants = append(variants, f)
		}
	}
	for _, v := range variants {
		if v < 128 {
			set.Add(int(v))
		}
	}
	return set, func(x rune) bool {
		for _, v := range variants {
			if v == x {
				return true
			}
		}
		return false
	}
}

// matchOne tests the character at pos against a class; returns (matched, width).
func (m *rxMatcher) matchOne(pos int, set ByteSet, nonASCII func(rune) bool) (bool, int) {
	if pos >= len(m.s) {
		return false, 0
	}
	in := m.in
	b := m.s[pos]
	if c, ok := b.Int64(); ok {
		if c < 128 {
			return set.Has(int(c)), 1
		}
		buf := make([]byte, 0, 4)
		for i := pos; i < len(m.s) && i < pos+4; i++ {
			v, ok := m.s[i].Int64()
			if !ok {
				break
			}
			buf = append(buf, byte(v))
		}
		r, w := decodeRuneBytes(buf)
		return nonASCII(r), w
	}
	if in.evalLit(in.tb.Lt(b, in.tb.Int(128))) <= 0 {
		if !in.branch(in.tb.Lt(b, in.tb.Int(128))) {
			// a symbolic byte >= 0x80: the regexp package works on runes; decode symbolically
			// (utf8 semantics incl. RuneError for invalid bytes) and test the class on the rune
			r, w := in.decodeRune(m.s[pos:])
			if c, ok := r.Int64(); ok {
				return nonASCII(rune(c)), w
			}
			if lo, hi, ok := in.runeRange(r); ok && lo >= 0x80 && hi-lo <= 0x800 {
				cond := in.tb.False
				start := int64(-1)
				for c := lo; c <= hi+1; c++ {
					on := c <= hi && nonASCII(rune(c))
					if on && start < 0 {
						start = c
					}
					if !on && start >= 0 {
						cond = in.tb.Or(cond, in.tb.And(in.tb.Le(in.tb.Int(start), r), in.tb.Le(r, in.tb.Int(c-1))))
						start = -1
					}
				}
				return in.branch(cond), w
			}
			unsup("symbolic three- or four-byte UTF-8 sequence in regexp input")
		}
	}
	return in.branch(in.tb.InSet(b, set)), 1
}

func (m *rxMatcher) isWordAt(pos int) bool {
	if pos < 0 || pos >= len(m.s) {
		return false
	}
	var set ByteSet
	for c := 0; c < 128; c++ {
		if c == '_' || (c >= '0' && c <= '9') || (c >= 'a' && c <= 'z') || (c >= 'A' && c <= 'Z') {
			set.Add(c)
		}
	}
	ok, _ := m.matchOne(pos, set, func(rune) bool { return false })
	return ok
}

func (m *rxMatcher) match(re *syntax.Regexp, pos int, k func(int) bool) bool {
	m.step++
	if m.step > 200000 {
		panic(pathEnd{kind: endUnwind, msg: "regexp matcher step limit"})
	}
	switch re.Op {
	case syntax.OpNoMatch:
		return false
	case syntax.OpEmptyMatch:
		return k(pos)
	case syntax.OpLiteral:
		p := pos
		for _, r := range re.Rune {
			set, na := literalSet(r, re.Flags&syntax.FoldCase != 0)
			ok, w := m.matchOne(p, set, na)
			if !ok {
				return false
			}
			p += w
		}
		return k(p)
	case syntax.OpCharClass:
		set, na := classSet(re.Rune, false)
		ok, w := m.matchOne(pos, set, na)
		if !ok {
			return false
		}
		return k(pos + w)
	case syntax.OpAnyCharNotNL:
		set := rangeSet(0, 127)
		set[0] &^= 1 << '\n'
		ok, w := m.matchOne(pos, set, func(rune) bool { return true })
		if !ok {
			return false
		}
		return k(pos + w)
	case syntax.OpAnyChar:
		ok, w := m.matchOne(pos, rangeSet(0, 127), func(rune) bool { return true })
		if !ok {
			return false
		}
		return k(pos + w)
	case syntax.OpBeginText:
		if pos != 0 {
			return false
		}
		return k(pos)
	case syntax.OpEndText:
		if pos != len(m.s) {
			return false
		}
		return k(pos)
	case syntax.OpBeginLine:
		if pos != 0 {
			var nl ByteSet
			nl.Add('\n')
			ok, _ := m.matchOne(pos-1, nl, func(rune) bool { return false })
			if !ok {
				return false
			}
		}
		return k(pos)
	case syntax.OpEndLine:
		if pos != len(m.s) {
			var nl ByteSet
			nl.Add('\n')
			ok, _ := m.matchOne(pos, nl, func(rune) bool { return false })
			if !ok {
				return false
			}
		}
		return k(pos)
	case syntax.OpWordBoundary:
		if m.isWordAt(pos-1) == m.isWordAt(pos) {
			return false
		}
		return k(pos)
	case syntax.OpNoWordBoundary:
		if m.isWordAt(pos-1) != m.isWordAt(pos) {
			return false
		}
		return k(pos)
	case syntax.OpCapture:
		i := re.Cap
		o0, o1 := m.caps[2*i], m.caps[2*i+1]
		if m.match(re.Sub[0], pos, func(p int) bool {
			s0, s1 := m.caps[2*i], m.caps[2*i+1]
			m.caps[2*i], m.caps[2*i+1] = pos, p
			if k(p) {
				return true
			}
			m.caps[2*i], m.caps[2*i+1] = s0, s1
			return false
		}) {
			return true
		}
		m.caps[2*i], m.caps[2*i+1] = o0, o1
		return false
	case syntax.OpStar:
		return m.star(re.Sub[0], pos, re.Flags&syntax.NonGreedy != 0, k)
	case syntax.OpPlus:
		return m.match(re.Sub[0], pos, func(p int) bool {
			if p == pos {
				return k(p)
			}
			return m.star(re.Sub[0], p, re.Flags&syntax.NonGreedy != 0, k)
		})
	case syntax.OpQuest:
		if re.Flags&syntax.NonGreedy != 0 {
			if k(pos) {
				return true
			}
			return m.match(re.Sub[0], pos, k)
		}
		if m.match(re.Sub[0], pos, k) {
			return true
		}
		return k(pos)
	case syntax.OpRepeat:
		// Simplify() removes these; handle small cases defensively
		return m.repeat(re, pos, 0, k)
	case syntax.OpConcat:
		return m.concat(re.Sub, 0, pos, k)
	case syntax.OpAlternate:
		for _, sub := range re.Sub {
			if m.match(sub, pos, k) {
				return true
			}
		}
		return false
	}
	unsup("regexp op %v", re.Op)
	return false
}

func (m *rxMatcher) repeat(re *syntax.Regexp, pos, count int, k func(int) bool) bool {
	canMore := re.Max < 0 || count < re.Max
	canStop := count >= re.Min
	tryMore := func() bool {
		if !canMore {
			return false
		}
		return m.match(re.Sub[0], pos, func(p int) bool {
			if p == pos && count >= re.Min {
				return false
			}
			return m.repeat(re, p, count+1, k)
		})
	}
	if re.Flags&syntax.NonGreedy != 0 {
		if canStop && k(pos) {
			return true
		}
		return tryMore()
	}
	if tryMore() {
		return true
	}
	return canStop && k(pos)
}

func (m *rxMatcher) star(sub *syntax.Regexp, pos int, lazy bool, k func(int) bool) bool {
	more := func() bool {
		return m.match(sub, pos, func(p int) bool {
			if p == pos {
				return false
			}
			return m.star(sub, p, lazy, k)
		})
	}
	if lazy {
		if k(pos) {
			return true
		}
		return more()
	}
	if more() {
		return true
	}
	return k(pos)
}

func (m *rxMatcher) concat(subs []*syntax.Regexp, i, pos int, k func(int) bool) bool {
	if i == len(subs) {
		return k(pos)
	}
	return m.match(subs[i], pos, func(p int) bool { return m.concat(subs, i+1, p, k) })
}

// find runs an unanchored leftmost-first search; returns capture indices (2*(ncap+1)) or nil.
func (in *Interp) rxFind(ro *RegexObj, s []*Term) []int {
	for start := 0; start <= len(s); start++ {
		m := &rxMatcher{in: in, s: s, caps: make([]int, 2*(ro.NCap+1))}
		for i := range m.caps {
			m.caps[i] = -1
		}
		var res []int
		if m.match(ro.Re, start, func(p int) bool {
			m.caps[0], m.caps[1] = start, p
			res = append([]int(nil), m.caps...)
			return true
		}) {
			return res
		}
		if startsWithBeginText(ro.Re) {
			break
		}
	}
	return nil
}

func startsWithBeginText(re *syntax.Regexp) bool {
	switch re.Op {
	case syntax.OpBeginText:
		return true
	case syntax.OpConcat:
		return len(re.Sub) > 0 && startsWithBeginText(re.Sub[0])
	case syntax.OpCapture:
		return startsWithBeginText(re.Sub[0])
	}
	return false
}
