package main

// time.Parse for the single layout the library uses (golang pseudo-version timestamps,
// "20060102150405"): validity of the 14 digits as a calendar date and time is modelled exactly,
// and the resulting time.Time is the struct the real Parse returns for a zone-less layout:
// wall = 0 (no monotonic reading, 0 ns), ext = seconds since January 1, year 1 UTC, loc = nil (UTC).
// Time's methods (Equal, Before, After, Compare, Unix, ...) then run from their real source.

import (
	"go/types"
	"math/big"

	"golang.org/x/tools/go/ssa"
)

func init() {
	nativeTable["time.Parse"] = natTimeParse
}

func natTimeParse(in *Interp, fn *ssa.Function, args []Value) Value {
	layout, ok := args[0].(Str).Concrete()
	if !ok || layout != "20060102150405" {
		unsup("time.Parse with layout %q", layout)
	}
	s := args[1].(Str)
	tb := in.tb
	res := fn.Signature.Results()
	zeroTime := in.zero(res.At(0).Type())
	fail := func() Value {
		return Tuple{zeroTime, in.newError(in.mkStr("parsing time: out of range or malformed"), false)}
	}
	if len(s.B) != 14 {
		return fail()
	}
	d := make([]*Term, 14)
	for i, b := range s.B {
		if !in.branch(tb.InSet(b, classSets["d"])) {
			return fail()
		}
		d[i] = tb.Sub(b, tb.Int('0'))
	}
	two := func(i int) *Term { return tb.Add(tb.Mul(d[i], tb.Int(10)), d[i+1]) }
	month, day, hour, min, sec := two(4), two(6), two(8), two(10), two(12)
	yy := two(2) // last two digits of the year
	cc := two(0) // century
	four := big.NewInt(4)
	div4 := func(t *Term) *Term { return tb.Eq(tb.ModF(t, four), tb.Int(0)) }
	yy0 := tb.Eq(yy, tb.Int(0))
	leap := tb.And(tb.Ite(yy0, div4(cc), tb.True), tb.Ite(yy0, tb.True, div4(yy)))
	in30 := tb.Or(tb.Or(tb.Eq(month, tb.Int(4)), tb.Eq(month, tb.Int(6))), tb.Or(tb.Eq(month, tb.Int(9)), tb.Eq(month, tb.Int(11))))
	feb := tb.Eq(month, tb.Int(2))
	dim := tb.Ite(feb, tb.Ite(leap, tb.Int(29), tb.Int(28)), tb.Ite(in30, tb.Int(30), tb.Int(31)))
	valid := tb.AndN([]*Term{
		tb.Le(tb.Int(1), month), tb.Le(month, tb.Int(12)),
		tb.Le(tb.Int(1), day), tb.Le(day, dim),
		tb.Le(hour, tb.Int(23)), tb.Le(min, tb.Int(59)), tb.Le(sec, tb.Int(59)),
	})
	if in.branch(valid) {
		// days from January 1, year 1 to the first day of the year (proleptic Gregorian, floor division)
		year := tb.Add(tb.Mul(cc, tb.Int(100)), yy)
		y1 := tb.Sub(year, tb.Int(1))
		days := tb.Add(tb.Sub(tb.Add(tb.Mul(y1, tb.Int(365)), tb.DivF(y1, big.NewInt(4))), tb.DivF(y1, big.NewInt(100))), tb.DivF(y1, big.NewInt(400)))
		cum := []int64{0, 31, 59, 90, 120, 151, 181, 212, 243, 273, 304, 334}
		before := tb.Int(cum[11])
		for m := 10; m >= 0; m-- {
			before = tb.Ite(tb.Eq(month, tb.Int(int64(m+1))), tb.Int(cum[m]), before)
		}
		leapDay := tb.Ite(tb.And(leap, tb.Lt(tb.Int(2), month)), tb.Int(1), tb.Int(0))
		days = tb.Add(tb.Add(days, before), tb.Add(leapDay, tb.Sub(day, tb.Int(1))))
		secs := tb.Add(tb.Mul(tb.Add(tb.Mul(days, tb.Int(24)), hour), tb.Int(3600)), tb.Add(tb.Mul(min, tb.Int(60)), sec))
		t, ok := zeroTime.(Struct)
		if !ok || len(t) != 3 {
			unsup("time.Time layout is not {wall, ext, loc}")
		}
		out := make(Struct, 3)
		copy(out, t)
		out[1] = secs
		return Tuple{out, Iface{}}
	}
	return fail()
}

var _ = types.Typ
