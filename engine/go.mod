module vx

go 1.26.8

require golang.org/x/tools v0.50.0

require (
	golang.org/x/mod v0.41.0 // indirect
	golang.org/x/sync v0.23.0 // indirect
)
