package main

import "fmt"

type c05Construct struct {
	eco       string
	construct string
	arities   []int
	pres      []string // pre-release parts of the base ("" = none)
}

var c05Table = []c05Construct{
	{"npm", "caret", []int{2, 3}, []string{"", "-{n}", "-{l}{l}.{d}"}},
	{"npm", "tilde", []int{1, 2, 3}, []string{"", "-{n}", "-{l}.{d}"}},
	{"npm", "xrange", []int{1, 2}, []string{""}},
	{"cargo", "caret", []int{1, 2, 3}, []string{"", "-{l}{l}{l}{l}{l}.{d}", "-{n}"}},
	{"cargo", "tilde", []int{1, 2, 3}, []string{"", "-{n}", "-{l}.{d}"}},
	{"cargo", "wildcard", []int{1, 2}, []string{""}},
	{"composer", "caret", []int{2, 3}, []string{""}},
	{"composer", "tilde", []int{2, 3}, []string{""}},
	{"composer", "wildcard", []int{1, 2}, []string{""}},
	{"composer", "wildcardx", []int{1, 2}, []string{""}},
	{"composer", "wildcard**", []int{1}, []string{""}},
	{"composer", "wildcardxx", []int{1}, []string{""}},
	{"npm", "xrange*", []int{1, 2}, []string{""}},
	{"npm", "xrangexx", []int{1}, []string{""}},
	{"conan", "tilde", []int{1, 2, 3}, []string{""}},
	{"conan", "caret", []int{1, 2, 3}, []string{""}},
	{"gem", "pessimistic", []int{1, 2, 3}, []string{""}},
	{"hex", "pessimistic", []int{2, 3}, []string{"", "-{n}", "-{l}{l}.{d}", "+{l}.{d}"}},
	{"pypi", "compatible", []int{2, 3}, []string{"", ".post{d}"}},
	{"pypi", "prefix", []int{1, 2, 3}, []string{""}},
}

func c05Probes(eco, tier string) []string {
	var p []string
	switch eco {
	case "npm", "cargo", "hex":
		p = []string{"{d}.{d}.{d}", "{d}.{d}.{d}-{n}", "{d}.{d}{d}.{d}", "{d}{d}.{d}.{d}", "{d}.{d}.{d}-0", "{d}.{d}.{d}-{l}{l}.{d}"}
	case "composer":
		p = []string{"{d}.{d}.{d}", "{d}.{d}{d}.{d}", "{d}{d}.{d}.{d}", "{d}.{d}", "{d}"}
	case "conan":
		p = []string{"{d}.{d}.{d}", "{d}.{d}", "{d}", "{d}.{d}{d}", "{d}{d}.{d}", "{d}.{d}.{d}.{d}"}
	case "gem":
		p = []string{"{d}.{d}.{d}", "{d}.{d}", "{d}", "{d}.{d}{d}", "{d}{d}.{d}", "{d}.{d}.{d}.{d}"}
	case "pypi":
		p = []string{"{d}.{d}", "{d}.{d}.{d}", "{d}.{d}.post{d}", "{d}{d}.{d}", "{d}.{d}{d}", "{d}"}
	case "nuget", "maven":
		p = []string{"{d}.{d}", "{d}.{d}.{d}", "{d}", "{d}.{d}{d}", "{d}{d}.{d}"}
	}
	if tier != "thorough" && len(p) > 4 {
		p = p[:4]
	}
	return p
}

func init() {
	registerCheck(&CheckDef{
		ID:    "C05",
		Title: "caret, tilde, pessimistic, compatible-release, wildcard/x-range, hyphen and bracket ranges contain exactly the versions of their documented interval",
		Pkgs:  []string{zzhPkg},
		Rule:  "C05Short: (ecosystem, construct, base arity, digit-run lengths, pre-release part) x probe template, documented interval computed by the spec-side table c05Spec and compared through the ecosystem's Compare; C05Bracket / C05Hyphen / C05PypiNotPrefix likewise",
		Gen: func(tier string) []*Config {
			var out []*Config
			lens := [][3]int{{1, 1, 1}}
			if tier == "thorough" {
				lens = append(lens, [3]int{2, 1, 1}, [3]int{1, 2, 1}, [3]int{1, 1, 2})
			}
			for _, c := range c05Table {
				for _, ar := range c.arities {
					for _, pre := range c.pres {
						if pre != "" && ar != 3 {
							continue
						}
						for _, ln := range lens {
							xs, ys, zs := digitRun(ln[0]), digitRun(ln[1]), digitRun(ln[2])
							// zero-leading positions matter (0.x, 0.0.x): also pin them
							variants := [][3]string{{xs, ys, zs}, {"0", ys, zs}, {"0", "0", zs}}
							if tier != "thorough" {
								variants = variants[:3]
							}
							for _, v := range variants {
								for _, p := range c05Probes(c.eco, tier) {
									out = append(out, &Config{ID: fmt.Sprintf("C05/%s/%s/%d/%s.%s.%s%s/%s", c.eco, c.construct, ar, v[0], v[1], v[2], pre, p), Pkg: zzhPkg, Func: "C05Short",
										Args: []ArgSpec{ArgStr(c.eco), ArgStr(c.construct), ArgTmpl(v[0]), ArgTmpl(v[1]), ArgTmpl(v[2]), ArgTmpl(pre), ArgTmpl(p), ArgInt(int64(ar))}})
								}
							}
						}
					}
				}
			}
			// the same construct parsed first with the other arities of the same base (`~7.0.0`, then
			// `~7`): the documented interval of a range does not depend on what was parsed before
			for _, c := range c05Table {
				if len(c.arities) < 2 {
					continue
				}
				for _, ar := range c.arities {
					for _, v := range [][3]string{{"{d}", "{d}", "{d}"}, {"0", "{d}", "{d}"}} {
						for _, p := range c05Probes(c.eco, "quick")[:2] {
							out = append(out, &Config{ID: fmt.Sprintf("C05/%s/%s/%d/%s.%s.%s/after-other-arities/%s", c.eco, c.construct, ar, v[0], v[1], v[2], p), Pkg: zzhPkg, Func: "C05ShortHist",
								Args: []ArgSpec{ArgStr(c.eco), ArgStr(c.construct), ArgTmpl(v[0]), ArgTmpl(v[1]), ArgTmpl(v[2]), ArgTmpl(""), ArgTmpl(p), ArgInt(int64(ar))}})
						}
					}
				}
			}
			kinds := []string{"[a]", "[a,b]", "(a,b)", "[a,b)", "(a,b]", "[a,)", "(a,)", "(,b]", "(,b)", "a"}
			for _, eco := range []string{"nuget", "maven"} {
				bs := []string{"{d}.{d}", "{d}.{d}.{d}", "{d}.{d}.{D}{d}{d}{d}{d}{d}"}
				for _, k := range kinds {
					for _, a := range bs {
						for _, b := range bs {
							probes := c05Probes(eco, tier)
							// a six-digit component (beyond 16 bits) in the probe, and once in a bound
							probes = append(probes, "{d}.{d}.{D}{d}{d}{d}{d}{d}")
							if a == bs[1] && b == bs[1] {
								probes = append(probes, "{d}.{D}{d}{d}{d}{d}{d}.{d}")
							}
							for _, p := range probes {
								out = append(out, &Config{ID: fmt.Sprintf("C05/%s/bracket/%s/%s|%s/%s", eco, k, a, b, p), Pkg: zzhPkg, Func: "C05Bracket",
									Args: []ArgSpec{ArgStr(eco), ArgStr(k), ArgTmpl(a), ArgTmpl(b), ArgTmpl(p)}})
							}
						}
					}
				}
			}
			for _, eco := range []string{"npm", "composer"} {
				for _, a := range []string{"{d}.{d}.{d}", "{d}.{d}{d}.{d}"} {
					for _, b := range []string{"{d}.{d}.{d}", "{d}{d}.{d}.{d}"} {
						for _, p := range c05Probes(eco, tier) {
							out = append(out, &Config{ID: fmt.Sprintf("C05/%s/hyphen/%s|%s/%s", eco, a, b, p), Pkg: zzhPkg, Func: "C05Hyphen", Args: []ArgSpec{ArgStr(eco), ArgTmpl(a), ArgTmpl(b), ArgTmpl(p)}})
						}
					}
				}
			}
			// hyphen ranges whose bounds carry a pre-release (npm): the bound is the pre-release itself
			for _, ab := range [][2]string{{"{d}.{d}.{d}", "{d}.{d}.{d}-{l}{l}.{d}"}, {"{d}.{d}.{d}-{l}", "{d}.{d}.{d}-{l}{l}"}, {"{d}.{d}.{d}-{l}.{d}", "{d}.{d}.{d}"}} {
				for _, p := range []string{"{d}.{d}.{d}", "{d}.{d}.{d}-{l}{l}.{d}", "{d}.{d}.{d}-{l}", "{d}.{d}.{d}-{n}"} {
					out = append(out, &Config{ID: fmt.Sprintf("C05/npm/hyphen-pre/%s|%s/%s", ab[0], ab[1], p), Pkg: zzhPkg, Func: "C05Hyphen", Args: []ArgSpec{ArgStr("npm"), ArgTmpl(ab[0]), ArgTmpl(ab[1]), ArgTmpl(p)}})
				}
			}
			for _, p := range c05Probes("pypi", tier) {
				out = append(out, &Config{ID: "C05/pypi/notprefix/" + p, Pkg: zzhPkg, Func: "C05PypiNotPrefix", Args: []ArgSpec{ArgStr("pypi"), ArgTmpl("{d}"), ArgTmpl("{d}"), ArgTmpl(p)}})
			}
			return out
		},
		Bounds: func(tier string) string {
			return "each shorthand construct also after the same construct has been parsed with the other arities of the same base; constructs per DESIGN B.4 (16 shorthand constructs, 10 bracket forms x nuget/maven, hyphen ranges x npm/composer, pypi !=X.Y.*); base arity 1-3, digit runs of length 1 (thorough: also 2), bracket bounds and probes also with a six-digit component, leading zero components pinned (0.x, 0.0.x), optional pre-release base; probes from 4 (quick) / 6 (thorough) templates per ecosystem; pre-releases of exactly the upper bound are not decided where the documentation gives a plain '<' bound (cargo, composer, conan, gem, hex); lower pre-release sliver of npm x-ranges unclaimed; composer probes stable only; pypi probes final/post only"
		},
		Assume: []string{"documented intervals are the spec-side table c05Spec in harness/pkg/zzh/c05.go (sources cited there)"},
	})
}
