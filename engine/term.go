package main

// Hash-consed Int/Bool term DAG with syntactic intervals and light simplification.
// Everything the symbolic executor hands to the SMT solver is one of these terms.

import (
	"fmt"
	"math/big"
	"strings"
)

type Sort uint8

const (
	SInt Sort = iota
	SBool
)

type Op uint8

const (
	OConst Op = iota
	OVar
	OAdd
	OSub
	OMul
	ODivT // Go truncated division
	ORemT // Go truncated remainder
	ODivF // floor division (SMT div) by positive constant
	OModF // SMT mod by positive constant
	OIte
	OEq
	OLt
	OLe
	OAnd
	OOr
	ONot
	OInSet // args[0] in set (256-bit)
	OWrap  // wrap args[0] to bits/signed
	OBitAnd // bitwise ops on non-negative bounded operands (bits = width used in the encoding)
	OBitOr
	OBitXor
)

type ByteSet [4]uint64

func (s *ByteSet) Has(b int) bool { return b >= 0 && b < 256 && s[b>>6]&(1<<uint(b&63)) != 0 }
func (s *ByteSet) Add(b int)      { s[b>>6] |= 1 << uint(b&63) }
func (s *ByteSet) Count() int {
	n := 0
	for b := 0; b < 256; b++ {
		if s.Has(b) {
			n++
		}
	}
	return n
}
func (s *ByteSet) Empty() bool { return s[0]|s[1]|s[2]|s[3] == 0 }
func (s ByteSet) And(o ByteSet) ByteSet {
	return ByteSet{s[0] & o[0], s[1] & o[1], s[2] & o[2], s[3] & o[3]}
}
func (s ByteSet) Not() ByteSet { return ByteSet{^s[0], ^s[1], ^s[2], ^s[3]} }
func (s *ByteSet) Single() (int, bool) {
	v := -1
	for b := 0; b < 256; b++ {
		if s.Has(b) {
			if v >= 0 {
				return 0, false
			}
			v = b
		}
	}
	return v, v >= 0
}
func (s *ByteSet) Min() int {
	for b := 0; b < 256; b++ {
		if s.Has(b) {
			return b
		}
	}
	return -1
}
func (s *ByteSet) Max() int {
	for b := 255; b >= 0; b-- {
		if s.Has(b) {
			return b
		}
	}
	return -1
}
func rangeSet(lo, hi int) ByteSet {
	var s ByteSet
	for b := lo; b <= hi; b++ {
		s.Add(b)
	}
	return s
}
func (s *ByteSet) String() string {
	var sb strings.Builder
	sb.WriteString("{")
	b := 0
	first := true
	for b < 256 {
		if !s.Has(b) {
			b++
			continue
		}
		e := b
		for e+1 < 256 && s.Has(e+1) {
			e++
		}
		if !first {
			sb.WriteString(",")
		}
		first = false
		if e == b {
			fmt.Fprintf(&sb, "%d", b)
		} else {
			fmt.Fprintf(&sb, "%d-%d", b, e)
		}
		b = e + 1
	}
	sb.WriteString("}")
	return sb.String()
}

type Term struct {
	id     int32
	op     Op
	sort   Sort
	a, b   *Term
	c      *Term
	val    *big.Int // OConst (bool: 0/1)
	name   string   // OVar
	set    *ByteSet // OInSet
	bits   uint8    // OWrap
	signed bool     // OWrap
	lo, hi *big.Int // interval for SInt (nil = unbounded on that side)
	fv     *Term    // the single free variable, if nfv==1
	nfv    uint8    // 0,1,2(=many)
	size   int32    // saturating tree size
}

func (t *Term) IsConst() bool { return t.op == OConst }
func (t *Term) IsTrue() bool  { return t.op == OConst && t.sort == SBool && t.val.Sign() != 0 }
func (t *Term) IsFalse() bool { return t.op == OConst && t.sort == SBool && t.val.Sign() == 0 }
func (t *Term) Int64() (int64, bool) {
	if t.op == OConst && t.val.IsInt64() {
		return t.val.Int64(), true
	}
	return 0, false
}

type tkey struct {
	op      Op
	a, b, c int32
	extra   string
}

type TB struct {
	tab    map[tkey]*Term
	nextID int32
	True   *Term
	False  *Term
	small  [512]*Term // -128..383
	vars   []*Term
	nTerms int
	varCache map[int32][]*Term
}

func NewTB() *TB {
	tb := &TB{tab: make(map[tkey]*Term, 1<<14)}
	tb.True = tb.mk(&Term{op: OConst, sort: SBool, val: big.NewInt(1)}, tkey{op: OConst, extra: "T"})
	tb.False = tb.mk(&Term{op: OConst, sort: SBool, val: big.NewInt(0)}, tkey{op: OConst, extra: "F"})
	return tb
}

func (tb *TB) mk(t *Term, k tkey) *Term {
	if e, ok := tb.tab[k]; ok {
		return e
	}
	tb.nextID++
	t.id = tb.nextID
	// free vars & size
	sz := int32(1)
	var fv *Term
	nfv := uint8(0)
	if t.op == OVar {
		fv = t
		nfv = 1
	}
	for _, x := range [3]*Term{t.a, t.b, t.c} {
		if x == nil {
			continue
		}
		if sz < 1<<20 {
			sz += x.size
		}
		switch {
		case x.nfv == 0:
		case x.nfv >= 2:
			nfv = 2
		case nfv == 0:
			nfv = 1
			fv = x.fv
		case nfv == 1 && fv != x.fv:
			nfv = 2
		}
	}
	t.size = sz
	t.nfv = nfv
	if nfv == 1 {
		t.fv = fv
	}
	tb.tab[k] = t
	tb.nTerms++
	return t
}

func (tb *TB) Bool(b bool) *Term {
	if b {
		return tb.True
	}
	return tb.False
}

func (tb *TB) Int(v int64) *Term {
	if v >= -128 && v < 384 {
		if t := tb.small[v+128]; t != nil {
			return t
		}
		t := tb.Big(big.NewInt(v))
		tb.small[v+128] = t
		return t
	}
	return tb.Big(big.NewInt(v))
}

func (tb *TB) Big(v *big.Int) *Term {
	k := tkey{op: OConst, extra: v.String()}
	if e, ok := tb.tab[k]; ok {
		return e
	}
	vv := new(big.Int).Set(v)
	return tb.mk(&Term{op: OConst, sort: SInt, val: vv, lo: vv, hi: vv}, k)
}

// Var creates a fresh Int variable with the given inclusive range.
func (tb *TB) Var(name string, lo, hi *big.Int) *Term {
	k := tkey{op: OVar, extra: name}
	if e, ok := tb.tab[k]; ok {
		return e
	}
	t := tb.mk(&Term{op: OVar, sort: SInt, name: name, lo: lo, hi: hi}, k)
	tb.vars = append(tb.vars, t)
	return t
}

func (tb *TB) BoolVar(name string) *Term {
	k := tkey{op: OVar, extra: "b:" + name}
	if e, ok := tb.tab[k]; ok {
		return e
	}
	t := tb.mk(&Term{op: OVar, sort: SBool, name: name}, k)
	tb.vars = append(tb.vars, t)
	return t
}

func bmin(a, b *big.Int) *big.Int {
	if a == nil || b == nil {
		return nil
	}
	if a.Cmp(b) <= 0 {
		return a
	}
	return b
}
func bmax(a, b *big.Int) *big.Int {
	if a == nil || b == nil {
		return nil
	}
	if a.Cmp(b) >= 0 {
		return a
	}
	return b
}

func (tb *TB) bin(op Op, sort Sort, a, b *Term) *Term {
	return tb.mk(&Term{op: op, sort: sort, a: a, b: b}, tkey{op: op, a: a.id, b: b.id})
}

// number of constant leaves of an ite tree (0 if some leaf is not constant or tree too big)
func iteConstLeaves(t *Term, budget int) int {
	if t.op == OConst {
		return 1
	}
	if t.op != OIte || budget <= 0 {
		return 0
	}
	l := iteConstLeaves(t.b, budget-1)
	if l == 0 {
		return 0
	}
	r := iteConstLeaves(t.c, budget-1-l)
	if r == 0 || l+r > budget {
		return 0
	}
	return l + r
}

// like iteConstLeaves but leaves may also be variables (byte predicates on them are decided by domains)
func iteSimpleLeaves(t *Term, budget int) int {
	if t.op == OConst || t.op == OVar {
		return 1
	}
	if t.op != OIte || budget <= 0 {
		return 0
	}
	l := iteSimpleLeaves(t.b, budget-1)
	if l == 0 {
		return 0
	}
	r := iteSimpleLeaves(t.c, budget-1-l)
	if r == 0 || l+r > budget {
		return 0
	}
	return l + r
}

func (tb *TB) mapLeaves(t *Term, f func(*Term) *Term) *Term {
	if t.op == OIte {
		return tb.Ite(t.a, tb.mapLeaves(t.b, f), tb.mapLeaves(t.c, f))
	}
	return f(t)
}

const liftBudget = 48

func (tb *TB) Add(a, b *Term) *Term {
	if a.op == OConst && b.op == OConst {
		return tb.Big(new(big.Int).Add(a.val, b.val))
	}
	if a.op == OConst && a.val.Sign() == 0 {
		return b
	}
	if b.op == OConst && b.val.Sign() == 0 {
		return a
	}
	if a.op == OConst { // canonical: const on the right
		a, b = b, a
	}
	// (x + c1) + c2
	if b.op == OConst && a.op == OAdd && a.b.op == OConst {
		return tb.Add(a.a, tb.Big(new(big.Int).Add(a.b.val, b.val)))
	}
	if b.op == OConst && a.op == OIte && iteConstLeaves(a, liftBudget) > 0 {
		return tb.mapLeaves(a, func(l *Term) *Term { return tb.Add(l, b) })
	}
	t := tb.bin(OAdd, SInt, a, b)
	if t.lo == nil && t.hi == nil {
		if a.lo != nil && b.lo != nil {
			t.lo = new(big.Int).Add(a.lo, b.lo)
		}
		if a.hi != nil && b.hi != nil {
			t.hi = new(big.Int).Add(a.hi, b.hi)
		}
	}
	return t
}

func (tb *TB) Sub(a, b *Term) *Term {
	if b.op == OConst {
		return tb.Add(a, tb.Big(new(big.Int).Neg(b.val)))
	}
	if a == b {
		return tb.Int(0)
	}
	t := tb.bin(OSub, SInt, a, b)
	if t.lo == nil && t.hi == nil {
		if a.lo != nil && b.hi != nil {
			t.lo = new(big.Int).Sub(a.lo, b.hi)
		}
		if a.hi != nil && b.lo != nil {
			t.hi = new(big.Int).Sub(a.hi, b.lo)
		}
	}
	return t
}

func (tb *TB) Neg(a *Term) *Term { return tb.Sub(tb.Int(0), a) }

func (tb *TB) Mul(a, b *Term) *Term {
	if a.op == OConst && b.op == OConst {
		return tb.Big(new(big.Int).Mul(a.val, b.val))
	}
	if a.op == OConst {
		a, b = b, a
	}
	if b.op == OConst {
		if b.val.Sign() == 0 {
			return tb.Int(0)
		}
		if b.val.IsInt64() && b.val.Int64() == 1 {
			return a
		}
		if a.op == OIte && iteConstLeaves(a, liftBudget) > 0 {
			return tb.mapLeaves(a, func(l *Term) *Term { return tb.Mul(l, b) })
		}
	}
	t := tb.bin(OMul, SInt, a, b)
	if t.lo == nil && t.hi == nil && a.lo != nil && a.hi != nil && b.lo != nil && b.hi != nil {
		p := []*big.Int{new(big.Int).Mul(a.lo, b.lo), new(big.Int).Mul(a.lo, b.hi), new(big.Int).Mul(a.hi, b.lo), new(big.Int).Mul(a.hi, b.hi)}
		lo, hi := p[0], p[0]
		for _, x := range p[1:] {
			lo = bmin(lo, x)
			hi = bmax(hi, x)
		}
		t.lo, t.hi = lo, hi
	}
	return t
}

// DivT: Go's truncated division. Divisor must be provably non-zero (caller checks).
func (tb *TB) DivT(a, b *Term) *Term {
	if a.op == OConst && b.op == OConst && b.val.Sign() != 0 {
		return tb.Big(new(big.Int).Quo(a.val, b.val))
	}
	if b.op == OConst && b.val.Sign() > 0 && a.lo != nil && a.lo.Sign() >= 0 {
		t := tb.bin(ODivF, SInt, a, b)
		if t.lo == nil && t.hi == nil {
			t.lo = new(big.Int).Quo(a.lo, b.val)
			if a.hi != nil {
				t.hi = new(big.Int).Quo(a.hi, b.val)
			}
		}
		return t
	}
	t := tb.bin(ODivT, SInt, a, b)
	if t.lo == nil && t.hi == nil && a.lo != nil && a.hi != nil {
		m := bmax(new(big.Int).Abs(a.lo), new(big.Int).Abs(a.hi))
		t.lo = new(big.Int).Neg(m)
		t.hi = m
	}
	return t
}

func (tb *TB) RemT(a, b *Term) *Term {
	if a.op == OConst && b.op == OConst && b.val.Sign() != 0 {
		return tb.Big(new(big.Int).Rem(a.val, b.val))
	}
	if b.op == OConst && b.val.Sign() > 0 && a.lo != nil && a.lo.Sign() >= 0 {
		if a.hi != nil && a.hi.Cmp(b.val) < 0 {
			return a
		}
		t := tb.bin(OModF, SInt, a, b)
		if t.lo == nil && t.hi == nil {
			t.lo = big.NewInt(0)
			t.hi = new(big.Int).Sub(b.val, big.NewInt(1))
		}
		return t
	}
	t := tb.bin(ORemT, SInt, a, b)
	if t.lo == nil && t.hi == nil && b.lo != nil && b.hi != nil {
		m := bmax(new(big.Int).Abs(b.lo), new(big.Int).Abs(b.hi))
		t.lo = new(big.Int).Neg(m)
		t.hi = m
	}
	return t
}

// DivF / ModF by a positive constant (SMT div/mod).
func (tb *TB) DivF(a *Term, c *big.Int) *Term {
	cb := tb.Big(c)
	if a.op == OConst {
		q := new(big.Int)
		m := new(big.Int)
		q.DivMod(a.val, c, m)
		return tb.Big(q)
	}
	t := tb.bin(ODivF, SInt, a, cb)
	if t.lo == nil && t.hi == nil {
		if a.lo != nil {
			q := new(big.Int)
			q.DivMod(a.lo, c, new(big.Int))
			t.lo = q
		}
		if a.hi != nil {
			q := new(big.Int)
			q.DivMod(a.hi, c, new(big.Int))
			t.hi = q
		}
	}
	return t
}

func (tb *TB) ModF(a *Term, c *big.Int) *Term {
	if a.op == OConst {
		m := new(big.Int)
		new(big.Int).DivMod(a.val, c, m)
		return tb.Big(m)
	}
	if a.lo != nil && a.hi != nil && a.lo.Sign() >= 0 && a.hi.Cmp(c) < 0 {
		return a
	}
	t := tb.bin(OModF, SInt, a, tb.Big(c))
	if t.lo == nil && t.hi == nil {
		t.lo = big.NewInt(0)
		t.hi = new(big.Int).Sub(c, big.NewInt(1))
	}
	return t
}

// BitOp builds a bitwise and/or/xor of two terms with known bounds inside int32/uint32 (or, when a
// bound is negative, inside int32: two's complement, signed result); nil otherwise.
func (tb *TB) BitOp(op Op, a, b *Term) *Term {
	if a.lo == nil || b.lo == nil || a.hi == nil || b.hi == nil {
		return nil
	}
	signed := a.lo.Sign() < 0 || b.lo.Sign() < 0
	mx := a.hi
	if b.hi.Cmp(mx) > 0 {
		mx = b.hi
	}
	width := uint8(8)
	if signed {
		lo32, hi32 := cachedTypeRange(32, true)
		mn := a.lo
		if b.lo.Cmp(mn) < 0 {
			mn = b.lo
		}
		if mn.Cmp(lo32) < 0 || mx.Cmp(hi32) > 0 {
			return nil
		}
		width = 32
	} else {
		w := mx.BitLen()
		if w > 64 {
			return nil
		}
		for int(width) < w {
			width *= 2
		}
	}
	if a.id > b.id {
		a, b = b, a
	}
	t := tb.mk(&Term{op: op, sort: SInt, a: a, b: b, bits: width, signed: signed}, tkey{op: op, a: a.id, b: b.id})
	if t.lo == nil && t.hi == nil {
		switch {
		case signed:
			t.lo, t.hi = cachedTypeRange(32, true)
		case op == OBitAnd:
			t.lo = big.NewInt(0)
			h := a.hi
			if b.hi.Cmp(h) < 0 {
				h = b.hi
			}
			t.hi = h
		default:
			t.lo = big.NewInt(0)
			t.hi = new(big.Int).Sub(new(big.Int).Lsh(big.NewInt(1), uint(mx.BitLen())), big.NewInt(1))
		}
	}
	return t
}

func typeRange(bits uint8, signed bool) (*big.Int, *big.Int) {
	one := big.NewInt(1)
	if signed {
		h := new(big.Int).Lsh(one, uint(bits-1))
		return new(big.Int).Neg(h), new(big.Int).Sub(h, one)
	}
	return big.NewInt(0), new(big.Int).Sub(new(big.Int).Lsh(one, uint(bits)), one)
}

var typeRangeCache = map[[2]int][2]*big.Int{}

func init() {
	for _, b := range []uint8{8, 16, 32, 64} {
		for _, s := range []bool{false, true} {
			lo, hi := typeRange(b, s)
			k := 0
			if s {
				k = 1
			}
			typeRangeCache[[2]int{int(b), k}] = [2]*big.Int{lo, hi}
		}
	}
}

func cachedTypeRange(bits uint8, signed bool) (*big.Int, *big.Int) {
	k := 0
	if signed {
		k = 1
	}
	r := typeRangeCache[[2]int{int(bits), k}]
	return r[0], r[1]
}

// Wrap reduces a to the given integer type unless its interval already fits.
func (tb *TB) Wrap(a *Term, bits uint8, signed bool) *Term {
	lo, hi := cachedTypeRange(bits, signed)
	if a.lo != nil && a.hi != nil && a.lo.Cmp(lo) >= 0 && a.hi.Cmp(hi) <= 0 {
		return a
	}
	if a.op == OConst {
		m := new(big.Int).Lsh(big.NewInt(1), uint(bits))
		v := new(big.Int).Sub(a.val, lo)
		v.Mod(v, m)
		v.Add(v, lo)
		return tb.Big(v)
	}
	ex := fmt.Sprintf("w%d%v", bits, signed)
	return tb.mk(&Term{op: OWrap, sort: SInt, a: a, bits: bits, signed: signed, lo: lo, hi: hi}, tkey{op: OWrap, a: a.id, extra: ex})
}

func (tb *TB) Ite(c, a, b *Term) *Term {
	if c.IsTrue() {
		return a
	}
	if c.IsFalse() {
		return b
	}
	if a == b {
		return a
	}
	if c.op == ONot {
		return tb.Ite(c.a, b, a)
	}
	if a.sort == SBool {
		switch {
		case a.IsTrue() && b.IsFalse():
			return c
		case a.IsFalse() && b.IsTrue():
			return tb.Not(c)
		case a.IsTrue():
			return tb.Or(c, b)
		case a.IsFalse():
			return tb.And(tb.Not(c), b)
		case b.IsTrue():
			return tb.Or(tb.Not(c), a)
		case b.IsFalse():
			return tb.And(c, a)
		}
	}
	// ite(c, x, ite(c, y, z)) etc. are rare; skip
	t := tb.mk(&Term{op: OIte, sort: a.sort, a: c, b: a, c: b}, tkey{op: OIte, a: c.id, b: a.id, c: b.id})
	if a.sort == SInt && t.lo == nil && t.hi == nil {
		t.lo = bmin(a.lo, b.lo)
		t.hi = bmax(a.hi, b.hi)
	}
	return t
}

func (tb *TB) Not(a *Term) *Term {
	switch a.op {
	case OConst:
		return tb.Bool(a.val.Sign() == 0)
	case ONot:
		return a.a
	case OLt:
		return tb.Le(a.b, a.a)
	case OLe:
		return tb.Lt(a.b, a.a)
	case OInSet:
		if a.a.lo != nil && a.a.hi != nil && a.a.lo.Sign() >= 0 && a.a.hi.Cmp(big255) <= 0 {
			ns := a.set.Not()
			return tb.InSet(a.a, ns)
		}
	}
	return tb.mk(&Term{op: ONot, sort: SBool, a: a}, tkey{op: ONot, a: a.id})
}

func (tb *TB) And(a, b *Term) *Term {
	if a.IsFalse() || b.IsFalse() {
		return tb.False
	}
	if a.IsTrue() {
		return b
	}
	if b.IsTrue() {
		return a
	}
	if a == b {
		return a
	}
	if (a.op == ONot && a.a == b) || (b.op == ONot && b.a == a) {
		return tb.False
	}
	if a.op == OInSet && b.op == OInSet && a.a == b.a {
		return tb.InSet(a.a, a.set.And(*b.set))
	}
	return tb.bin(OAnd, SBool, a, b)
}

func (tb *TB) Or(a, b *Term) *Term {
	if a.IsTrue() || b.IsTrue() {
		return tb.True
	}
	if a.IsFalse() {
		return b
	}
	if b.IsFalse() {
		return a
	}
	if a == b {
		return a
	}
	if (a.op == ONot && a.a == b) || (b.op == ONot && b.a == a) {
		return tb.True
	}
	if a.op == OInSet && b.op == OInSet && a.a == b.a {
		s := ByteSet{a.set[0] | b.set[0], a.set[1] | b.set[1], a.set[2] | b.set[2], a.set[3] | b.set[3]}
		return tb.InSet(a.a, s)
	}
	return tb.bin(OOr, SBool, a, b)
}

func (tb *TB) AndN(xs []*Term) *Term {
	r := tb.True
	for _, x := range xs {
		r = tb.And(r, x)
	}
	return r
}
func (tb *TB) OrN(xs []*Term) *Term {
	r := tb.False
	for _, x := range xs {
		r = tb.Or(r, x)
	}
	return r
}

func (tb *TB) Implies(a, b *Term) *Term { return tb.Or(tb.Not(a), b) }

// InSet: a ∈ set where a is a byte-valued (0..255) term. Values outside 0..255 are never in the set.
func (tb *TB) InSet(a *Term, set ByteSet) *Term {
	if a.op == OConst {
		if a.val.IsInt64() {
			return tb.Bool(set.Has(int(a.val.Int64())))
		}
		return tb.False
	}
	// restrict to the interval of a
	if a.lo != nil && a.hi != nil && a.lo.IsInt64() && a.hi.IsInt64() {
		lo, hi := a.lo.Int64(), a.hi.Int64()
		all, none := true, true
		for v := lo; v <= hi && v-lo < 512; v++ {
			if set.Has(int(v)) {
				none = false
			} else {
				all = false
			}
		}
		if hi-lo < 512 {
			if all {
				return tb.True
			}
			if none {
				return tb.False
			}
		}
	}
	if set.Empty() {
		return tb.False
	}
	if a.op == OIte && iteSimpleLeaves(a, 16) > 0 {
		return tb.mapLeaves(a, func(l *Term) *Term { return tb.InSet(l, set) })
	}
	sc := set
	return tb.mk(&Term{op: OInSet, sort: SBool, a: a, set: &sc}, tkey{op: OInSet, a: a.id, extra: fmt.Sprintf("%x.%x.%x.%x", set[0], set[1], set[2], set[3])})
}

func (tb *TB) Eq(a, b *Term) *Term {
	if a == b {
		return tb.True
	}
	if a.sort == SBool {
		if a.op == OConst {
			a, b = b, a
		}
		if b.IsTrue() {
			return a
		}
		if b.IsFalse() {
			return tb.Not(a)
		}
		return tb.Ite(a, b, tb.Not(b))
	}
	if a.op == OConst && b.op == OConst {
		return tb.Bool(a.val.Cmp(b.val) == 0)
	}
	if a.op == OConst {
		a, b = b, a
	}
	// disjoint intervals
	if a.hi != nil && b.lo != nil && a.hi.Cmp(b.lo) < 0 {
		return tb.False
	}
	if b.hi != nil && a.lo != nil && b.hi.Cmp(a.lo) < 0 {
		return tb.False
	}
	if b.op == OConst {
		if a.op == OIte && (iteConstLeaves(a, liftBudget) > 0 || iteSimpleLeaves(a, 16) > 0) {
			return tb.mapLeaves(a, func(l *Term) *Term { return tb.Eq(l, b) })
		}
		if a.op == OAdd && a.b.op == OConst {
			return tb.Eq(a.a, tb.Big(new(big.Int).Sub(b.val, a.b.val)))
		}
		if a.op == OVar && a.lo != nil && a.hi != nil && a.lo.Sign() >= 0 && a.hi.Cmp(big.NewInt(255)) <= 0 && b.val.IsInt64() {
			var s ByteSet
			s.Add(int(b.val.Int64()))
			return tb.InSet(a, s)
		}
	}
	if a.id > b.id && b.op != OConst {
		a, b = b, a
	}
	return tb.bin(OEq, SBool, a, b)
}

func isByteVar(a *Term) bool {
	return a.op == OVar && a.sort == SInt && a.lo != nil && a.hi != nil && a.lo.Sign() >= 0 && a.hi.Cmp(big255) <= 0
}

var big255 = big.NewInt(255)

func (tb *TB) Lt(a, b *Term) *Term {
	if a == b {
		return tb.False
	}
	if a.op == OConst && b.op == OConst {
		return tb.Bool(a.val.Cmp(b.val) < 0)
	}
	if a.hi != nil && b.lo != nil && a.hi.Cmp(b.lo) < 0 {
		return tb.True
	}
	if a.lo != nil && b.hi != nil && a.lo.Cmp(b.hi) >= 0 {
		return tb.False
	}
	if b.op == OConst {
		if a.op == OIte && (iteConstLeaves(a, liftBudget) > 0 || iteSimpleLeaves(a, 16) > 0) {
			return tb.mapLeaves(a, func(l *Term) *Term { return tb.Lt(l, b) })
		}
		if a.op == OAdd && a.b.op == OConst {
			return tb.Lt(a.a, tb.Big(new(big.Int).Sub(b.val, a.b.val)))
		}
		if isByteVar(a) && b.val.IsInt64() {
			v := b.val.Int64()
			if v > 256 {
				v = 256
			}
			return tb.InSet(a, rangeSet(0, int(v)-1))
		}
	}
	if a.op == OConst {
		if b.op == OIte && (iteConstLeaves(b, liftBudget) > 0 || iteSimpleLeaves(b, 16) > 0) {
			return tb.mapLeaves(b, func(l *Term) *Term { return tb.Lt(a, l) })
		}
		if b.op == OAdd && b.b.op == OConst {
			return tb.Lt(tb.Big(new(big.Int).Sub(a.val, b.b.val)), b.a)
		}
		if isByteVar(b) && a.val.IsInt64() {
			v := a.val.Int64()
			if v < -1 {
				v = -1
			}
			return tb.InSet(b, rangeSet(int(v)+1, 255))
		}
	}
	return tb.bin(OLt, SBool, a, b)
}

func (tb *TB) Le(a, b *Term) *Term {
	if a == b {
		return tb.True
	}
	if a.op == OConst && b.op == OConst {
		return tb.Bool(a.val.Cmp(b.val) <= 0)
	}
	if a.hi != nil && b.lo != nil && a.hi.Cmp(b.lo) <= 0 {
		return tb.True
	}
	if a.lo != nil && b.hi != nil && a.lo.Cmp(b.hi) > 0 {
		return tb.False
	}
	if b.op == OConst {
		return tb.Lt(a, tb.Big(new(big.Int).Add(b.val, big.NewInt(1))))
	}
	if a.op == OConst {
		return tb.Lt(tb.Big(new(big.Int).Sub(a.val, big.NewInt(1))), b)
	}
	return tb.bin(OLe, SBool, a, b)
}

func (tb *TB) Ne(a, b *Term) *Term { return tb.Not(tb.Eq(a, b)) }

// ---------------------------------------------------------------------------------------------
// concrete evaluation (int64, overflow-checked) under an assignment of variables

type evalEnv struct {
	vals map[*Term]int64
	memo map[*Term]int64
	ok   bool
}

func addOv(a, b int64) (int64, bool) {
	c := a + b
	if (c > a) == (b > 0) {
		return c, true
	}
	return 0, false
}
func mulOv(a, b int64) (int64, bool) {
	if a == 0 || b == 0 {
		return 0, true
	}
	c := a * b
	if c/b != a || (a == -1 && b == -1<<63) || (b == -1 && a == -1<<63) {
		return 0, false
	}
	return c, true
}

func (e *evalEnv) eval(t *Term) int64 {
	if !e.ok {
		return 0
	}
	switch t.op {
	case OConst:
		if !t.val.IsInt64() {
			e.ok = false
			return 0
		}
		return t.val.Int64()
	case OVar:
		v, ok := e.vals[t]
		if !ok {
			e.ok = false
		}
		return v
	}
	if t.size > 8 && e.memo != nil {
		if v, ok := e.memo[t]; ok {
			return v
		}
	}
	var r int64
	b2i := func(b bool) int64 {
		if b {
			return 1
		}
		return 0
	}
	switch t.op {
	case OAdd:
		x, y := e.eval(t.a), e.eval(t.b)
		v, ok := addOv(x, y)
		if !ok {
			e.ok = false
		}
		r = v
	case OSub:
		x, y := e.eval(t.a), e.eval(t.b)
		if y == -1<<63 {
			e.ok = false
			break
		}
		v, ok := addOv(x, -y)
		if !ok {
			e.ok = false
		}
		r = v
	case OMul:
		x, y := e.eval(t.a), e.eval(t.b)
		v, ok := mulOv(x, y)
		if !ok {
			e.ok = false
		}
		r = v
	case ODivT:
		x, y := e.eval(t.a), e.eval(t.b)
		if y == 0 || (x == -1<<63 && y == -1) {
			e.ok = false
			break
		}
		r = x / y
	case ORemT:
		x, y := e.eval(t.a), e.eval(t.b)
		if y == 0 || (x == -1<<63 && y == -1) {
			e.ok = false
			break
		}
		r = x % y
	case ODivF:
		x, y := e.eval(t.a), e.eval(t.b)
		if y <= 0 {
			e.ok = false
			break
		}
		q := x / y
		if x%y != 0 && x < 0 {
			q--
		}
		r = q
	case OModF:
		x, y := e.eval(t.a), e.eval(t.b)
		if y <= 0 {
			e.ok = false
			break
		}
		m := x % y
		if m < 0 {
			m += y
		}
		r = m
	case OIte:
		if e.eval(t.a) != 0 {
			r = e.eval(t.b)
		} else {
			r = e.eval(t.c)
		}
	case OEq:
		r = b2i(e.eval(t.a) == e.eval(t.b))
	case OLt:
		r = b2i(e.eval(t.a) < e.eval(t.b))
	case OLe:
		r = b2i(e.eval(t.a) <= e.eval(t.b))
	case OAnd:
		r = b2i(e.eval(t.a) != 0 && e.eval(t.b) != 0)
	case OOr:
		r = b2i(e.eval(t.a) != 0 || e.eval(t.b) != 0)
	case ONot:
		r = b2i(e.eval(t.a) == 0)
	case OInSet:
		r = b2i(t.set.Has(int(e.eval(t.a))))
	case OBitAnd:
		r = e.eval(t.a) & e.eval(t.b)
	case OBitOr:
		r = e.eval(t.a) | e.eval(t.b)
	case OBitXor:
		r = e.eval(t.a) ^ e.eval(t.b)
	case OWrap:
		x := e.eval(t.a)
		lo, hi := cachedTypeRange(t.bits, t.signed)
		bx := big.NewInt(x)
		if bx.Cmp(lo) >= 0 && bx.Cmp(hi) <= 0 {
			r = x
		} else {
			m := new(big.Int).Lsh(big.NewInt(1), uint(t.bits))
			v := new(big.Int).Sub(bx, lo)
			v.Mod(v, m)
			v.Add(v, lo)
			if !v.IsInt64() {
				e.ok = false
				break
			}
			r = v.Int64()
		}
	default:
		e.ok = false
	}
	if t.size > 8 && e.memo != nil {
		e.memo[t] = r
	}
	return r
}

// evalBig evaluates a term under a full assignment with arbitrary precision (used for models).
func evalBig(t *Term, vals map[*Term]*big.Int, memo map[*Term]*big.Int) *big.Int {
	if v, ok := memo[t]; ok {
		return v
	}
	b2i := func(b bool) *big.Int {
		if b {
			return big.NewInt(1)
		}
		return big.NewInt(0)
	}
	var r *big.Int
	ev := func(x *Term) *big.Int { return evalBig(x, vals, memo) }
	switch t.op {
	case OConst:
		r = t.val
	case OVar:
		v, ok := vals[t]
		if !ok {
			v = big.NewInt(0)
			if t.lo != nil {
				v = t.lo
			}
		}
		r = v
	case OAdd:
		r = new(big.Int).Add(ev(t.a), ev(t.b))
	case OSub:
		r = new(big.Int).Sub(ev(t.a), ev(t.b))
	case OMul:
		r = new(big.Int).Mul(ev(t.a), ev(t.b))
	case ODivT:
		d := ev(t.b)
		if d.Sign() == 0 {
			r = big.NewInt(0)
		} else {
			r = new(big.Int).Quo(ev(t.a), d)
		}
	case ORemT:
		d := ev(t.b)
		if d.Sign() == 0 {
			r = big.NewInt(0)
		} else {
			r = new(big.Int).Rem(ev(t.a), d)
		}
	case ODivF:
		q := new(big.Int)
		q.DivMod(ev(t.a), ev(t.b), new(big.Int))
		r = q
	case OModF:
		m := new(big.Int)
		new(big.Int).DivMod(ev(t.a), ev(t.b), m)
		r = m
	case OIte:
		if ev(t.a).Sign() != 0 {
			r = ev(t.b)
		} else {
			r = ev(t.c)
		}
	case OEq:
		r = b2i(ev(t.a).Cmp(ev(t.b)) == 0)
	case OLt:
		r = b2i(ev(t.a).Cmp(ev(t.b)) < 0)
	case OLe:
		r = b2i(ev(t.a).Cmp(ev(t.b)) <= 0)
	case OAnd:
		r = b2i(ev(t.a).Sign() != 0 && ev(t.b).Sign() != 0)
	case OOr:
		r = b2i(ev(t.a).Sign() != 0 || ev(t.b).Sign() != 0)
	case ONot:
		r = b2i(ev(t.a).Sign() == 0)
	case OInSet:
		x := ev(t.a)
		r = b2i(x.IsInt64() && t.set.Has(int(x.Int64())))
	case OBitAnd:
		r = new(big.Int).And(ev(t.a), ev(t.b))
	case OBitOr:
		r = new(big.Int).Or(ev(t.a), ev(t.b))
	case OBitXor:
		r = new(big.Int).Xor(ev(t.a), ev(t.b))
	case OWrap:
		x := ev(t.a)
		lo, _ := cachedTypeRange(t.bits, t.signed)
		m := new(big.Int).Lsh(big.NewInt(1), uint(t.bits))
		v := new(big.Int).Sub(x, lo)
		v.Mod(v, m)
		v.Add(v, lo)
		r = v
	}
	memo[t] = r
	return r
}

func (t *Term) String() string {
	var sb strings.Builder
	t.write(&sb, 0)
	return sb.String()
}

func (t *Term) write(sb *strings.Builder, depth int) {
	if depth > 12 {
		sb.WriteString("…")
		return
	}
	switch t.op {
	case OConst:
		if t.sort == SBool {
			if t.val.Sign() != 0 {
				sb.WriteString("true")
			} else {
				sb.WriteString("false")
			}
		} else {
			sb.WriteString(t.val.String())
		}
	case OVar:
		sb.WriteString(t.name)
	case OInSet:
		sb.WriteString("(in ")
		t.a.write(sb, depth+1)
		sb.WriteString(" " + t.set.String() + ")")
	case OWrap:
		fmt.Fprintf(sb, "(wrap%d ", t.bits)
		t.a.write(sb, depth+1)
		sb.WriteString(")")
	default:
		names := map[Op]string{OAdd: "+", OSub: "-", OMul: "*", ODivT: "quo", ORemT: "rem", ODivF: "div", OModF: "mod", OIte: "ite", OEq: "=", OLt: "<", OLe: "<=", OAnd: "and", OOr: "or", ONot: "not", OBitAnd: "bitand", OBitOr: "bitor", OBitXor: "bitxor"}
		sb.WriteString("(" + names[t.op])
		for _, x := range []*Term{t.a, t.b, t.c} {
			if x != nil {
				sb.WriteString(" ")
				x.write(sb, depth+1)
			}
		}
		sb.WriteString(")")
	}
}

// collectVars adds the free variables of t to set (memoised per term).
func (tb *TB) collectVars(t *Term, set map[*Term]bool) {
	switch t.nfv {
	case 0:
		return
	case 1:
		set[t.fv] = true
		return
	}
	if tb.varCache == nil {
		tb.varCache = map[int32][]*Term{}
	}
	vs, ok := tb.varCache[t.id]
	if !ok {
		tmp := map[*Term]bool{}
		for _, x := range [3]*Term{t.a, t.b, t.c} {
			if x != nil {
				tb.collectVars(x, tmp)
			}
		}
		vs = make([]*Term, 0, len(tmp))
		for v := range tmp {
			vs = append(vs, v)
		}
		tb.varCache[t.id] = vs
	}
	for _, v := range vs {
		set[v] = true
	}
}
