package main

import (
	"fmt"
	"os"
	"sort"
	"time"
	"go/constant"
	"go/token"
	"go/types"
	"math/big"
	"strings"

	"golang.org/x/tools/go/ssa"
)

type Stats struct {
	Paths       int64
	Forks       int64
	Instrs      int64
	MergedCalls int64
	MergedPaths int64
	MergeAborts int64
	MemoHits    int64
}

type Interp struct {
	P      *Program
	tb     *TB
	solver *Solver

	globals     map[*ssa.Global]*Value
	globalTrail []globalUndo
	syncDepth   int // > 0 between Lock and Unlock and inside atomic operations (natives_sync.go)
	syncMaps    map[*Value]*[]syncMapEntry
	syncPools   map[*Value]*[]Value
	runeBounds  map[*Term][2]int64
	initDone    map[*ssa.Package]bool

	ctx      *Ctx
	lits     map[int32]bool
	litTrail []litUndo
	doms     map[*Term]ByteSet
	domTrail []domUndo
	side     []*Term // global definitional constraints

	stamp   int64
	epoch   int64 // vv.Epoch marker: objects with stamp <= epochStamp existed before the current API call
	stats   Stats
	fresh   int
	noMerge map[*ssa.Function]string

	forkFeasibility bool
	maxBackEdges    int
	maxDepth        int
	depth           int
	funcsEntered    map[*ssa.Function]int64
	nativesUsed     map[string]int64
	notes           map[string]int
	globalWrites    []string

	run *runState // per-configuration state (asserts, witnesses)

	inInit         int
	callStack      []*ssa.Function
	initDirect     *ssa.Function
	fmtCache       map[string][]*Term
	globalStampMax int64
	baseDoms       map[*Term]ByteSet
	memo           map[string]*memoEntry
	deadline       time.Time
	knowGen        uint32
	evalGen        []uint32
	evalVal        []int8
}

type globalUndo struct {
	p   *Value
	old Value
}

type frame struct {
	fn        *ssa.Function
	env       map[ssa.Value]Value
	block     *ssa.BasicBlock
	prev      *ssa.BasicBlock
	backEdges int
	defers    []func()
}

func NewInterp(p *Program) *Interp {
	in := &Interp{P: p, tb: NewTB(), globals: map[*ssa.Global]*Value{}, initDone: map[*ssa.Package]bool{},
		lits: map[int32]bool{}, doms: map[*Term]ByteSet{}, noMerge: map[*ssa.Function]string{},
		maxBackEdges: 2000, maxDepth: 400, funcsEntered: map[*ssa.Function]int64{}, nativesUsed: map[string]int64{}, notes: map[string]int{}}
	in.ctx = &Ctx{root: &dnode{}}
	in.ctx.cur = in.ctx.root
	return in
}

func (in *Interp) note(s string) { in.notes[s]++ }

func (in *Interp) freshName(prefix string) string {
	in.fresh++
	return fmt.Sprintf("%s_%d", prefix, in.fresh)
}

func (in *Interp) newStamp() int64 {
	in.stamp++
	return in.stamp
}

func unsup(format string, args ...interface{}) {
	panic(pathEnd{kind: endUnsupported, msg: fmt.Sprintf(format, args...)})
}

func goPanic(format string, args ...interface{}) {
	panic(pathEnd{kind: endPanic, msg: fmt.Sprintf(format, args...)})
}

// ---------------------------------------------------------------------------------------------
// globals and package initialisation

func (in *Interp) globalCell(g *ssa.Global) *Value {
	if c, ok := in.globals[g]; ok {
		return c
	}
	if g.Pkg != nil {
		in.ensureInit(g.Pkg)
		if c, ok := in.globals[g]; ok {
			return c
		}
	}
	et := g.Type().(*types.Pointer).Elem()
	v := in.zero(et)
	if g.Pkg != nil && initSkip[g.Pkg.Pkg.Path()] {
		// the package's initialisers are not executed: the few globals whose initial value matters to
		// code that runs from source are built here; any other global with a reference type would
		// read as nil although the real program has a value there, so its use ends the path
		path := g.Pkg.Pkg.Path()
		switch {
		case path == "time" && (g.Name() == "UTC" || g.Name() == "Local"):
			target := "utcLoc"
			if g.Name() == "Local" {
				target = "localLoc"
			}
			if tg, ok := g.Pkg.Members[target].(*ssa.Global); ok {
				v = &Ptr{P: in.globalCell(tg), Stamp: 0, Obj: tg.Name()}
			}
		case skippedGlobalZeroOK[path+"."+g.Name()]:
		default:
			switch et.Underlying().(type) {
			case *types.Pointer, *types.Map, *types.Slice, *types.Signature, *types.Interface, *types.Chan:
				if os.Getenv("VX_GLOBAL_GUARD") != "off" {
					unsup("read of %s.%s: the package's initialisers are not modelled", path, g.Name())
				}
			}
		}
	}
	c := &v
	in.globals[g] = c
	return c
}

// skippedGlobalZeroOK: reference-typed globals of packages whose init is skipped that really are
// nil when the program starts (or are only touched by code that natives replace).
var skippedGlobalZeroOK = map[string]bool{}

var initSkip = map[string]bool{
	"unicode": true, "runtime": true, "os": true, "sync": true, "syscall": true, "reflect": true, "time": true,
	"internal/cpu": true, "internal/bytealg": true, "io": true, "io/fs": true, "math": true, "math/big": true, "math/rand": true,
	"fmt": true, "regexp": true, "regexp/syntax": true, "internal/poll": true, "internal/godebug": true, "sync/atomic": true,
	"internal/testlog": true, "internal/oserror": true, "path": true, "internal/reflectlite": true, "unsafe": true, "sort": true,
	"internal/abi": true, "errors": true, "internal/goarch": true, "internal/race": true, "bytes": true, "unicode/utf16": true, "internal/itoa": true,
	"internal/stringslite": true, "iter": true, "internal/byteorder": true, "encoding/binary": true, "testing": true, "flag": true,
}

// ensureInit runs the package's var initialisers (its synthetic init function) once, concretely.
func (in *Interp) ensureInit(p *ssa.Package) {
	if in.initDone[p] {
		return
	}
	in.initDone[p] = true
	path := p.Pkg.Path()
	if initSkip[path] || path == in.P.vvPath {
		return
	}
	initFn := p.Func("init")
	if initFn == nil || len(initFn.Blocks) == 0 {
		return
	}
	saveCtx := in.ctx
	saveRun := in.run
	saveCS := len(in.callStack)
	defer func() { in.callStack = in.callStack[:saveCS] }()
	in.ctx = &Ctx{root: &dnode{}, fn: "init:" + path}
	in.ctx.cur = in.ctx.root
	in.run = nil
	func() {
		defer func() {
			if r := recover(); r != nil {
				if pe, ok := r.(pathEnd); ok {
					in.note(fmt.Sprintf("init of %s stopped: %s %s", path, pe.kind, pe.msg))
					return
				}
				if !strings.HasPrefix(path, in.P.modPath) {
					in.note(fmt.Sprintf("init of %s stopped: engine error %v", path, r))
					return
				}
				fmt.Fprintf(os.Stderr, "ENGINE PANIC in init of %s: %v\nSSA stack:\n", path, r)
				for _, f := range in.callStack {
					fmt.Fprintf(os.Stderr, "  %s\n", f)
				}
				panic(r)
			}
		}()
		in.inInit++
		defer func() { in.inInit-- }()
		in.initDirect = initFn
		in.callFunction(initFn, nil, nil)
	}()
	in.ctx = saveCtx
	in.run = saveRun
}

// ---------------------------------------------------------------------------------------------
// operands

func (in *Interp) constValue(c *ssa.Const) Value {
	t := c.Type()
	if c.Value == nil {
		return in.zero(t)
	}
	switch u := t.Underlying().(type) {
	case *types.Basic:
		switch {
		case u.Info()&types.IsBoolean != 0:
			return in.tb.Bool(constant.BoolVal(c.Value))
		case u.Info()&types.IsInteger != 0:
			v := constant.ToInt(c.Value)
			if i, ok := constant.Int64Val(v); ok {
				return in.tb.Int(i)
			}
			b, _ := new(big.Int).SetString(v.ExactString(), 10)
			return in.tb.Big(b)
		case u.Info()&types.IsString != 0:
			return in.mkStr(constant.StringVal(c.Value))
		case u.Info()&types.IsFloat != 0:
			f, _ := constant.Float64Val(c.Value)
			return Float(f)
		}
	case *types.TypeParam:
		unsup("constant of type parameter type")
	}
	unsup("constant %s of type %s", c.Value, t)
	return nil
}

func (in *Interp) get(fr *frame, v ssa.Value) Value {
	switch x := v.(type) {
	case *ssa.Const:
		return in.constValue(x)
	case *ssa.Global:
		return &Ptr{P: in.globalCell(x), Stamp: 0, Obj: x.Name()}
	case *ssa.Function:
		return &Closure{Fn: x}
	case *ssa.Builtin:
		return &Closure{Builtin: x}
	}
	if r, ok := fr.env[v]; ok {
		return r
	}
	panic(fmt.Sprintf("get: no value for %T %s in %s", v, v.Name(), fr.fn))
}

// ---------------------------------------------------------------------------------------------
// calls

func (in *Interp) callFunction(fn *ssa.Function, args []Value, env []Value) Value {
	in.depth++
	defer func() { in.depth-- }()
	if in.depth > in.maxDepth {
		panic(pathEnd{kind: endUnwind, msg: "call depth exceeded in " + fn.String()})
	}
	if in.inInit > 0 && fn.Name() == "init" && fn.Synthetic == "package initializer" && fn.Pkg != nil && fn != in.initDirect {
		in.ensureInit(fn.Pkg)
		return nil
	}
	in.initDirect = nil
	if nat := in.lookupNative(fn); nat != nil {
		in.nativesUsed[fn.String()]++
		return nat(in, fn, args)
	}
	csn := len(in.callStack)
	in.callStack = append(in.callStack, fn)
	if ov := in.P.override(fn); ov != nil {
		fn = ov
	}
	if len(fn.Blocks) == 0 {
		if fn.Synthetic != "" && strings.Contains(fn.Synthetic, "generic") {
			unsup("uninstantiated generic function %s", fn)
		}
		unsup("function without body: %s", fn)
	}
	in.funcsEntered[fn]++
	fr := &frame{fn: fn, env: make(map[ssa.Value]Value, len(fn.Params)+8)}
	for i, p := range fn.Params {
		fr.env[p] = args[i]
	}
	for i, fv := range fn.FreeVars {
		fr.env[fv] = env[i]
	}
	fr.block = fn.Blocks[0]
	for {
		res, done := in.runBlock(fr)
		if done {
			in.callStack = in.callStack[:csn]
			return res
		}
	}
}

// call dispatches a call with possible merging.
func (in *Interp) call(fn *ssa.Function, args []Value, env []Value) Value {
	if in.mergeable(fn) {
		return in.callMerged(fn, args, env)
	}
	return in.callFunction(fn, args, env)
}

func resultMergeable(t types.Type) bool {
	switch u := t.Underlying().(type) {
	case *types.Basic:
		return u.Info()&(types.IsInteger|types.IsBoolean|types.IsString) != 0
	case *types.Interface:
		return t.String() == "error"
	case *types.Pointer, *types.Slice, *types.Struct:
		return true
	}
	return false
}

func (in *Interp) mergeable(fn *ssa.Function) bool {
	if in.P.noMergeAll || in.inInit > 0 {
		return false
	}
	if m, ok := in.P.mergeableCache.Load(fn); ok {
		if m.(int) == 0 {
			return false
		}
		if m.(int) == 2 && in.run != nil && in.run.cfg.ScalarMergeOnly {
			return false
		}
		_, bad := in.noMerge[fn]
		return !bad
	}
	ok := true
	if len(fn.Blocks) < 2 && in.P.override(fn) == nil {
		ok = false // straight-line code: nothing to merge
	}
	res := fn.Signature.Results()
	if res.Len() == 0 {
		ok = false
	}
	deep := false
	for i := 0; ok && i < res.Len(); i++ {
		if !resultMergeable(res.At(i).Type()) {
			ok = false
		}
		switch res.At(i).Type().Underlying().(type) {
		case *types.Pointer, *types.Slice, *types.Struct:
			deep = true
		}
	}
	if ok && in.lookupNative(fn) != nil {
		ok = false
	}
	if pp := fnPkgPath(fn); ok && (pp == in.P.vvPath || pp == in.P.modPath+"/cmd") {
		ok = false // harness vocabulary; CLI orchestration (run, runEcosystem, sort, ...) forks at the top level
	}
	code := 0
	if ok {
		code = 1
		if deep {
			code = 2
		}
	}
	in.P.mergeableCache.Store(fn, code)
	if code == 2 && in.run != nil && in.run.cfg.ScalarMergeOnly {
		return false
	}
	return ok
}

func (in *Interp) callMerged(fn *ssa.Function, args []Value, env []Value) Value {
	in.stats.MergedCalls++
	outer := in.ctx
	mkey := in.memoKey(fn, args, env)
	if mkey != "" {
		if e, ok := in.memo[mkey]; ok {
			in.stats.MemoHits++
			return in.useGroups(fn, e.groups, true)
		}
	}
	sub := &Ctx{parent: outer, root: &dnode{}, entryStamp: in.stamp, nested: true, fn: fn.String()}
	// the nested exploration sees the byte domains of the caller but not its literal table, so
	// that the result is a function of (arguments, domains) only and can be memoised
	savedLits, savedTrail := in.lits, in.litTrail
	in.lits, in.litTrail = map[int32]bool{}, nil
	in.knowGen++
	restoreLits := func() { in.lits, in.litTrail = savedLits, savedTrail; in.knowGen++ }
	lm, dm := in.litMark(), in.domMark()
	depth0 := in.depth
	cs0 := len(in.callStack)
	aborted := ""
	for !sub.root.done {
		in.undoTo(lm, dm)
		in.callStack = in.callStack[:cs0]
		sub.cur = sub.root
		sub.pc = sub.pc[:0]
		in.ctx = sub
		in.depth = depth0
		sub.paths++
		in.stats.MergedPaths++
		if sub.paths > in.P.maxMergedPaths {
			in.undoTo(lm, dm)
			restoreLits()
			in.ctx = outer
			in.depth = depth0
			in.callStack = in.callStack[:cs0]
			panic(pathEnd{kind: endUnsupported, msg: fmt.Sprintf("more than %d paths inside %s", in.P.maxMergedPaths, fn)})
		}
		if sub.paths%64 == 0 && !in.deadline.IsZero() && time.Now().After(in.deadline) {
			in.undoTo(lm, dm)
			restoreLits()
			in.ctx = outer
			in.depth = depth0
			in.callStack = in.callStack[:cs0]
			panic(pathEnd{kind: endUnsupported, msg: "time budget exhausted inside " + fn.String()})
		}
		var out *outcome
		func() {
			defer func() {
				if r := recover(); r != nil {
					switch e := r.(type) {
					case pathEnd:
						out = &outcome{kind: e.kind, msg: e.msg, site: e.site}
					case mergeAbort:
						if e.ctx == sub {
							aborted = e.why
							return
						}
						panic(r)
					default:
						panic(r)
					}
				}
			}()
			v := in.callFunction(fn, args, env)
			out = &outcome{kind: endDone, val: v}
		}()
		if aborted != "" {
			break
		}
		sub.cur.out = out
		markDone(sub.cur)
	}
	in.undoTo(lm, dm)
	restoreLits()
	in.ctx = outer
	in.depth = depth0
	in.callStack = in.callStack[:cs0]
	if aborted != "" {
		in.stats.MergeAborts++
		in.noMerge[fn] = aborted
		return in.callFunction(fn, args, env)
	}
	// group leaves by shape
	keys := map[*dnode]string{}
	var order []string
	reps := map[string]*outcome{}
	unmergeable := false
	collectLeaves(sub.root, func(n *dnode) {
		if n.out == nil {
			return
		}
		var k string
		switch n.out.kind {
		case endDone:
			k = "ok:" + in.shapeKey(n.out.val, sub.entryStamp, 0)
			if strings.Contains(k, "?") {
				unmergeable = true
			}
		case endInfeasible, endAssume:
			return
		default:
			k = fmt.Sprintf("end:%d:%s", n.out.kind, n.out.msg)
		}
		keys[n] = k
		if _, ok := reps[k]; !ok {
			reps[k] = n.out
			order = append(order, k)
		}
	})
	if unmergeable {
		in.stats.MergeAborts++
		in.noMerge[fn] = "result shape"
		return in.callFunction(fn, args, env)
	}
	if len(order) == 0 {
		panic(pathEnd{kind: endInfeasible})
	}
	groups := make([]mergeGroup, 0, len(order))
	for _, k := range order {
		c, v := in.foldGroup(sub.root, k, keys)
		groups = append(groups, mergeGroup{key: k, cond: c, val: v, out: reps[k]})
	}
	if traceOn2 {
		var dump func(n *dnode, ind string)
		dump = func(n *dnode, ind string) {
			if n.conds == nil {
				if n.out != nil {
					fmt.Fprintf(os.Stderr, "%sLEAF %s %s key=%s\n", ind, n.out.kind, showValue(n.out.val), keys[n])
				} else {
					fmt.Fprintf(os.Stderr, "%sLEAF <no outcome>\n", ind)
				}
				return
			}
			for i, k := range n.kids {
				if k != nil {
					fmt.Fprintf(os.Stderr, "%s[%d] %s\n", ind, i, n.conds[i])
					dump(k, ind+"  ")
				}
			}
		}
		dump(sub.root, "    ")
		for _, g := range groups {
			fmt.Fprintf(os.Stderr, "  MERGE %s group %s cond=%s val=%s\n", fn, g.key, g.cond, showValue(g.val))
		}
	}
	if mkey != "" {
		cacheable := true
		for _, g := range groups {
			if strings.Contains(g.key, "ext") {
				cacheable = false
			}
		}
		if cacheable {
			in.memo[mkey] = &memoEntry{groups: groups}
		}
	}
	return in.useGroups(fn, groups, false)
}

type memoEntry struct {
	groups []mergeGroup
}

// useGroups continues the caller with the outcome groups of a merged call.
func (in *Interp) useGroups(fn *ssa.Function, groups []mergeGroup, fromCache bool) Value {
	gi := 0
	if len(groups) > 1 {
		conds := make([]*Term, len(groups))
		for i, g := range groups {
			conds[i] = g.cond
		}
		gi = in.fork(conds)
	}
	if gi >= len(groups) {
		panic(pathEnd{kind: endUnsupported, msg: "re-execution diverged at a merged call (callee not pure in its arguments)"})
	}
	g := groups[gi]
	if g.out.kind != endDone {
		panic(pathEnd{kind: g.out.kind, msg: g.out.msg, site: g.out.site})
	}
	if fromCache {
		return in.deepCopy(g.val)
	}
	return g.val
}

// deepCopy re-allocates every heap object reachable from a cached result.
func (in *Interp) deepCopy(v Value) Value {
	switch x := v.(type) {
	case Tuple:
		out := make(Tuple, len(x))
		for i := range x {
			out[i] = in.deepCopy(x[i])
		}
		return out
	case Struct:
		out := make(Struct, len(x))
		for i := range x {
			out[i] = in.deepCopy(x[i])
		}
		return out
	case Array:
		out := make(Array, len(x))
		for i := range x {
			out[i] = in.deepCopy(x[i])
		}
		return out
	case Iface:
		if x.T == nil {
			return x
		}
		return Iface{T: x.T, V: in.deepCopy(x.V)}
	case *Ptr:
		if x.P == nil {
			return x
		}
		if _, isRx := (*x.P).(*RegexObj); isRx {
			return x
		}
		nv := in.deepCopy(*x.P)
		return &Ptr{P: &nv, Stamp: in.newStamp(), Obj: x.Obj}
	case *Slice:
		if x.Nil {
			return x
		}
		arr := make([]Value, x.Cap)
		for i := 0; i < x.Cap && x.Off+i < len(x.Arr); i++ {
			arr[i] = in.deepCopy(x.Arr[x.Off+i])
		}
		return &Slice{Arr: arr, Len: x.Len, Cap: x.Cap, Stamp: in.newStamp()}
	}
	return v
}

// memoKey builds a structural key of a call (function, deep argument structure with term ids,
// and the current domains of the variables occurring in the arguments); "" = not cacheable.
func (in *Interp) memoKey(fn *ssa.Function, args []Value, env []Value) string {
	if in.P.noMemo {
		return ""
	}
	var sb strings.Builder
	sb.WriteString(fn.String())
	vars := map[*Term]bool{}
	ok := true
	var rec func(v Value, depth int)
	rec = func(v Value, depth int) {
		if !ok {
			return
		}
		if depth > 10 {
			ok = false
			return
		}
		switch x := v.(type) {
		case *Term:
			fmt.Fprintf(&sb, "t%d,", x.id)
			in.tb.collectVars(x, vars)
		case Str:
			sb.WriteString("s[")
			for _, b := range x.B {
				if c, isC := b.Int64(); isC {
					fmt.Fprintf(&sb, "%d,", c)
				} else {
					fmt.Fprintf(&sb, "t%d,", b.id)
					in.tb.collectVars(b, vars)
				}
			}
			sb.WriteString("]")
		case Tuple:
			sb.WriteString("(")
			for _, e := range x {
				rec(e, depth+1)
			}
			sb.WriteString(")")
		case Struct:
			sb.WriteString("{")
			for _, e := range x {
				rec(e, depth+1)
			}
			sb.WriteString("}")
		case Array:
			if len(x) > 64 {
				ok = false
				return
			}
			sb.WriteString("[")
			for _, e := range x {
				rec(e, depth+1)
			}
			sb.WriteString("]")
		case Iface:
			if x.T == nil {
				sb.WriteString("nil,")
				return
			}
			if _, isErr := x.V.(*ErrObj); isErr {
				ok = false
				return
			}
			sb.WriteString("I<" + x.T.String() + ":")
			rec(x.V, depth+1)
			sb.WriteString(">")
		case *Ptr:
			if x.P == nil {
				sb.WriteString("nilp,")
				return
			}
			if ro, isRx := (*x.P).(*RegexObj); isRx {
				fmt.Fprintf(&sb, "rx%p,", ro)
				return
			}
			sb.WriteString("&")
			rec(*x.P, depth+1)
		case *Slice:
			if x.Nil {
				sb.WriteString("nils,")
				return
			}
			if x.Len > 64 {
				ok = false
				return
			}
			fmt.Fprintf(&sb, "sl%d/%d[", x.Len, x.Cap)
			for i := 0; i < x.Len; i++ {
				rec(x.Arr[x.Off+i], depth+1)
			}
			sb.WriteString("]")
		case *Closure:
			if x.Fn == nil {
				sb.WriteString("nilf,")
				return
			}
			sb.WriteString("fn:" + x.Fn.String() + "(")
			for _, e := range x.Env {
				rec(e, depth+1)
			}
			sb.WriteString(")")
		case Float:
			fmt.Fprintf(&sb, "f%v,", float64(x))
		case nil:
			sb.WriteString("void,")
		default:
			ok = false
		}
	}
	for _, a := range args {
		rec(a, 0)
		sb.WriteString(";")
	}
	for _, a := range env {
		rec(a, 0)
		sb.WriteString(";")
	}
	if !ok {
		return ""
	}
	if len(vars) > 0 {
		ids := make([]*Term, 0, len(vars))
		for v := range vars {
			ids = append(ids, v)
		}
		sort.Slice(ids, func(i, j int) bool { return ids[i].id < ids[j].id })
		sb.WriteString("|")
		for _, v := range ids {
			if d, has := in.doms[v]; has {
				fmt.Fprintf(&sb, "%d:%x.%x.%x.%x,", v.id, d[0], d[1], d[2], d[3])
			}
		}
	}
	return sb.String()
}

// checkWrite is called before every store to memory with the given allocation stamp.
func (in *Interp) checkWrite(stamp int64, what string) {
	for c := in.ctx; c != nil && c.nested; c = c.parent {
		if stamp <= c.entryStamp {
			// the write is visible outside the innermost nested context that predates the object
			panic(mergeAbort{ctx: c, why: "external write: " + what})
		}
		// written object is younger than this context: it is local to it and all enclosing ones
		break
	}
	if in.run != nil && in.run.epochStamp > 0 && stamp <= in.run.epochStamp && in.inInit == 0 {
		in.run.sharedWrite(in, what, stamp)
	}
}

func (in *Interp) invokeMethod(recv Value, m *types.Func, args []Value) Value {
	ifc, ok := recv.(Iface)
	if !ok {
		panic(fmt.Sprintf("invoke on non-interface %T", recv))
	}
	if ifc.T == nil {
		goPanic("nil interface method call %s", m.Name())
	}
	// error values
	if eo, ok := ifc.V.(*ErrObj); ok {
		if m.Name() == "Error" {
			return eo.Msg
		}
		if m.Name() == "Unwrap" {
			if eo.Wrap != nil {
				return *eo.Wrap
			}
			return Iface{}
		}
	}
	fn := in.P.prog.LookupMethod(ifc.T, m.Pkg(), m.Name())
	if fn == nil {
		unsup("method %s not found on %s", m.Name(), ifc.T)
	}
	return in.call(fn, append([]Value{ifc.V}, args...), nil)
}

func (in *Interp) doCall(fr *frame, cc *ssa.CallCommon) Value {
	if cc.IsInvoke() {
		recv := in.get(fr, cc.Value)
		args := make([]Value, len(cc.Args))
		for i, a := range cc.Args {
			args[i] = in.get(fr, a)
		}
		return in.invokeMethod(recv, cc.Method, args)
	}
	args := make([]Value, len(cc.Args))
	for i, a := range cc.Args {
		args[i] = in.get(fr, a)
	}
	switch f := cc.Value.(type) {
	case *ssa.Function:
		return in.call(f, args, nil)
	case *ssa.Builtin:
		return in.builtin(fr, f, cc, args)
	}
	fv := in.get(fr, cc.Value)
	return in.callValue(fv, args)
}

func (in *Interp) callValue(fv Value, args []Value) Value {
	cl, ok := fv.(*Closure)
	if !ok {
		panic(fmt.Sprintf("call of non-function %T", fv))
	}
	if cl.Fn == nil {
		if cl.Native != "" {
			return in.callNativeValue(cl, args)
		}
		goPanic("call of nil function")
	}
	return in.call(cl.Fn, args, cl.Env)
}

// ---------------------------------------------------------------------------------------------
// blocks and instructions

func (in *Interp) runBlock(fr *frame) (Value, bool) {
	b := fr.block
	// phis first, evaluated simultaneously
	nphi := 0
	for _, ins := range b.Instrs {
		if _, ok := ins.(*ssa.Phi); ok {
			nphi++
		} else {
			break
		}
	}
	if nphi > 0 {
		idx := -1
		for i, p := range b.Preds {
			if p == fr.prev {
				idx = i
				break
			}
		}
		vals := make([]Value, nphi)
		for i := 0; i < nphi; i++ {
			vals[i] = in.get(fr, b.Instrs[i].(*ssa.Phi).Edges[idx])
		}
		for i := 0; i < nphi; i++ {
			fr.env[b.Instrs[i].(*ssa.Phi)] = vals[i]
		}
	}
	for _, ins := range b.Instrs[nphi:] {
		in.stats.Instrs++
		if traceOn3 {
			if v, ok := ins.(ssa.Value); ok {
				fmt.Fprintf(os.Stderr, "      %s.%d: %s = %s\n", fr.fn.Name(), b.Index, v.Name(), ins)
			} else {
				fmt.Fprintf(os.Stderr, "      %s.%d: %s\n", fr.fn.Name(), b.Index, ins)
			}
		}
		switch x := ins.(type) {
		case *ssa.Jump:
			in.gotoBlock(fr, b.Succs[0])
			return nil, false
		case *ssa.If:
			c := in.get(fr, x.Cond).(*Term)
			if in.branch(c) {
				in.gotoBlock(fr, b.Succs[0])
			} else {
				in.gotoBlock(fr, b.Succs[1])
			}
			return nil, false
		case *ssa.Return:
			var res Value
			switch len(x.Results) {
			case 0:
			case 1:
				res = in.get(fr, x.Results[0])
			default:
				t := make(Tuple, len(x.Results))
				for i, r := range x.Results {
					t[i] = in.get(fr, r)
				}
				res = t
			}
			return res, true
		case *ssa.Panic:
			v := in.get(fr, x.X)
			goPanic("explicit panic: %s", showValue(v))
		case *ssa.RunDefers:
			for i := len(fr.defers) - 1; i >= 0; i-- {
				fr.defers[i]()
			}
			fr.defers = nil
		case *ssa.Defer:
			cc := x.Call
			if cc.IsInvoke() {
				unsup("defer invoke")
			}
			args := make([]Value, len(cc.Args))
			for i, a := range cc.Args {
				args[i] = in.get(fr, a)
			}
			var fv Value
			switch f := cc.Value.(type) {
			case *ssa.Function:
				fv = &Closure{Fn: f}
			case *ssa.Builtin:
				unsup("defer builtin")
			default:
				fv = in.get(fr, cc.Value)
			}
			fr.defers = append(fr.defers, func() { in.callValue(fv, args) })
		case *ssa.Go:
			unsup("go statement in %s", fr.fn)
		case *ssa.Send:
			unsup("channel send")
		case *ssa.Select:
			unsup("select")
		case *ssa.Store:
			p := in.get(fr, x.Addr).(*Ptr)
			if p.P == nil {
				goPanic("nil pointer dereference (store) in %s", fr.fn)
			}
			in.checkWrite(p.Stamp, "store in "+fr.fn.String())
			in.storeTo(p, copyVal(in.get(fr, x.Val)))
		case *ssa.MapUpdate:
			in.mapUpdate(fr, in.get(fr, x.Map).(*Map), in.get(fr, x.Key), in.get(fr, x.Value))
		case *ssa.DebugRef:
		case ssa.Value:
			fr.env[x] = in.eval(fr, x)
		default:
			unsup("instruction %T", ins)
		}
	}
	panic("block without terminator")
}

func (in *Interp) storeTo(p *Ptr, v Value) {
	if p.Stamp <= in.globalStampMax && in.inInit == 0 {
		in.globalTrail = append(in.globalTrail, globalUndo{p.P, *p.P})
	}
	*p.P = v
}

func (in *Interp) gotoBlock(fr *frame, to *ssa.BasicBlock) {
	if to.Index <= fr.block.Index {
		fr.backEdges++
		if fr.backEdges > in.maxBackEdges {
			panic(pathEnd{kind: endUnwind, msg: fmt.Sprintf("more than %d loop iterations in %s", in.maxBackEdges, fr.fn)})
		}
	}
	fr.prev = fr.block
	fr.block = to
}

func (in *Interp) eval(fr *frame, v ssa.Value) Value {
	switch x := v.(type) {
	case *ssa.Alloc:
		z := in.zero(x.Type().(*types.Pointer).Elem())
		return &Ptr{P: &z, Stamp: in.newStamp(), Obj: x.Comment}
	case *ssa.BinOp:
		return in.binop(x.Op, x.X.Type(), in.get(fr, x.X), in.get(fr, x.Y), x.Type(), x.Y.Type())
	case *ssa.UnOp:
		return in.unop(fr, x)
	case *ssa.Call:
		return in.doCall(fr, &x.Call)
	case *ssa.ChangeInterface:
		return in.get(fr, x.X)
	case *ssa.ChangeType:
		return in.get(fr, x.X)
	case *ssa.Convert:
		return in.convert(in.get(fr, x.X), x.X.Type(), x.Type())
	case *ssa.MultiConvert:
		return in.convert(in.get(fr, x.X), x.X.Type(), x.Type())
	case *ssa.Extract:
		return in.get(fr, x.Tuple).(Tuple)[x.Index]
	case *ssa.Field:
		return copyVal(in.get(fr, x.X).(Struct)[x.Field])
	case *ssa.FieldAddr:
		p := in.get(fr, x.X).(*Ptr)
		if p.P == nil {
			goPanic("nil pointer dereference (field %d) in %s", x.Field, fr.fn)
		}
		s := (*p.P).(Struct)
		return &Ptr{P: &s[x.Field], Stamp: p.Stamp, Obj: p.Obj}
	case *ssa.Index:
		return in.index(fr, x)
	case *ssa.IndexAddr:
		return in.indexAddr(fr, x)
	case *ssa.Lookup:
		return in.lookup(fr, x)
	case *ssa.MakeClosure:
		env := make([]Value, len(x.Bindings))
		for i, b := range x.Bindings {
			env[i] = in.get(fr, b)
		}
		return &Closure{Fn: x.Fn.(*ssa.Function), Env: env}
	case *ssa.MakeInterface:
		return Iface{T: x.X.Type(), V: in.get(fr, x.X)}
	case *ssa.MakeMap:
		mt := x.Type().Underlying().(*types.Map)
		return &Map{Stamp: in.newStamp(), KeyT: mt.Key(), ValT: mt.Elem()}
	case *ssa.MakeSlice:
		n := in.concretizeInt(in.get(fr, x.Len).(*Term), "make len")
		c := in.concretizeInt(in.get(fr, x.Cap).(*Term), "make cap")
		if n < 0 || c < n {
			goPanic("makeslice: len out of range")
		}
		if c > 1<<20 {
			unsup("makeslice: cap %d too large", c)
		}
		et := x.Type().Underlying().(*types.Slice).Elem()
		arr := make([]Value, c)
		for i := range arr {
			arr[i] = in.zero(et)
		}
		return &Slice{Arr: arr, Len: int(n), Cap: int(c), Stamp: in.newStamp()}
	case *ssa.Next:
		return in.next(fr, x)
	case *ssa.Range:
		return in.rangeIter(fr, x)
	case *ssa.Slice:
		return in.sliceOp(fr, x)
	case *ssa.TypeAssert:
		return in.typeAssert(fr, x)
	case *ssa.SliceToArrayPointer:
		unsup("slice to array pointer")
	case *ssa.MakeChan:
		unsup("make chan")
	}
	unsup("value instruction %T", v)
	return nil
}

func (in *Interp) unop(fr *frame, x *ssa.UnOp) Value {
	v := in.get(fr, x.X)
	switch x.Op {
	case token.MUL:
		p := v.(*Ptr)
		if p.P == nil {
			goPanic("nil pointer dereference (load) in %s", fr.fn)
		}
		return copyVal(*p.P)
	case token.NOT:
		return in.tb.Not(v.(*Term))
	case token.SUB:
		if f, ok := v.(Float); ok {
			return -f
		}
		bits, signed, _ := intTypeInfo(x.Type())
		return in.tb.Wrap(in.tb.Neg(v.(*Term)), bits, signed)
	case token.XOR:
		t := v.(*Term)
		bits, signed, _ := intTypeInfo(x.Type())
		// ^x = -x-1 (signed) ; for unsigned: max - x
		if signed {
			return in.tb.Wrap(in.tb.Sub(in.tb.Neg(t), in.tb.Int(1)), bits, signed)
		}
		_, hi := cachedTypeRange(bits, false)
		return in.tb.Sub(in.tb.Big(hi), t)
	case token.ARROW:
		unsup("channel receive")
	}
	unsup("unop %s", x.Op)
	return nil
}

func (in *Interp) typeAssert(fr *frame, x *ssa.TypeAssert) Value {
	v := in.get(fr, x.X).(Iface)
	var ok bool
	var res Value
	if _, isIface := x.AssertedType.Underlying().(*types.Interface); isIface {
		if v.T != nil {
			ok = types.Implements(v.T, x.AssertedType.Underlying().(*types.Interface))
			if !ok {
				// pointer receiver method sets are handled by types.Implements on the dynamic type itself
			}
		}
		if ok {
			res = v
		} else {
			res = Iface{}
		}
	} else {
		ok = v.T != nil && types.Identical(v.T, x.AssertedType)
		if ok {
			res = v.V
		} else {
			res = in.zero(x.AssertedType)
		}
	}
	if x.CommaOk {
		return Tuple{res, in.tb.Bool(ok)}
	}
	if !ok {
		goPanic("interface conversion: %v is not %s", v.T, x.AssertedType)
	}
	return res
}

func (in *Interp) index(fr *frame, x *ssa.Index) Value {
	c := in.get(fr, x.X)
	idx := in.get(fr, x.Index).(*Term)
	switch a := c.(type) {
	case Str:
		i := in.concretizeInt(idx, "string index")
		if i < 0 || int(i) >= len(a.B) {
			goPanic("index out of range [%d] with length %d (string) in %s", i, len(a.B), fr.fn)
		}
		return a.B[i]
	case Array:
		return in.arrayRead(a, idx, fr)
	}
	unsup("index on %T", c)
	return nil
}

// arrayRead reads a[idx]; a symbolic idx over a table of scalars becomes an ite chain.
func (in *Interp) arrayRead(a Array, idx *Term, fr *frame) Value {
	if i, ok := idx.Int64(); ok {
		if i < 0 || int(i) >= len(a) {
			goPanic("index out of range [%d] with length %d in %s", i, len(a), fr.fn)
		}
		return copyVal(a[i])
	}
	vals := in.possibleValues(idx, 256)
	if vals == nil {
		unsup("symbolic array index %s", idx)
	}
	allScalar := true
	for _, v := range vals {
		if v < 0 || int(v) >= len(a) {
			allScalar = false
			break
		}
		if _, ok := a[v].(*Term); !ok {
			allScalar = false
			break
		}
	}
	if allScalar {
		// group by value to keep the term small
		var res *Term
		for k := len(vals) - 1; k >= 0; k-- {
			e := a[vals[k]].(*Term)
			if res == nil {
				res = e
				continue
			}
			if e == res {
				continue
			}
			res = in.tb.Ite(in.tb.Eq(idx, in.tb.Int(vals[k])), e, res)
		}
		return res
	}
	i := in.concretizeInt(idx, "array index")
	if i < 0 || int(i) >= len(a) {
		goPanic("index out of range [%d] with length %d in %s", i, len(a), fr.fn)
	}
	return copyVal(a[i])
}

func (in *Interp) indexAddr(fr *frame, x *ssa.IndexAddr) Value {
	c := in.get(fr, x.X)
	idx := in.get(fr, x.Index).(*Term)
	switch a := c.(type) {
	case *Slice:
		i := in.concretizeInt(idx, "slice index")
		if i < 0 || int(i) >= a.Len {
			goPanic("index out of range [%d] with length %d in %s", i, a.Len, fr.fn)
		}
		return &Ptr{P: &a.Arr[a.Off+int(i)], Stamp: a.Stamp}
	case *Ptr: // pointer to array
		if a.P == nil {
			goPanic("nil pointer dereference (array index) in %s", fr.fn)
		}
		arr := (*a.P).(Array)
		if _, ok := idx.Int64(); !ok {
			// symbolic index into a table: hand out a pointer to a temporary holding the ite-merged value
			// (sound for loads; stores through it would be lost, so require a following load only)
			if onlyLoaded(x) {
				v := in.arrayRead(arr, idx, fr)
				return &Ptr{P: &v, Stamp: in.newStamp()}
			}
		}
		i := in.concretizeInt(idx, "array index")
		if i < 0 || int(i) >= len(arr) {
			goPanic("index out of range [%d] with length %d in %s", i, len(arr), fr.fn)
		}
		return &Ptr{P: &arr[i], Stamp: a.Stamp}
	}
	unsup("indexaddr on %T", c)
	return nil
}

func onlyLoaded(v ssa.Value) bool {
	refs := v.Referrers()
	if refs == nil {
		return false
	}
	for _, r := range *refs {
		u, ok := r.(*ssa.UnOp)
		if !ok || u.Op != token.MUL {
			return false
		}
	}
	return true
}

func (in *Interp) sliceOp(fr *frame, x *ssa.Slice) Value {
	c := in.get(fr, x.X)
	getIdx := func(v ssa.Value, def int64) int64 {
		if v == nil {
			return def
		}
		return in.concretizeInt(in.get(fr, v).(*Term), "slice bound")
	}
	switch a := c.(type) {
	case Str:
		lo := getIdx(x.Low, 0)
		hi := getIdx(x.High, int64(len(a.B)))
		if lo < 0 || hi < lo || hi > int64(len(a.B)) {
			goPanic("slice bounds out of range [%d:%d] with length %d (string) in %s", lo, hi, len(a.B), fr.fn)
		}
		return Str{a.B[lo:hi]}
	case *Slice:
		lo := getIdx(x.Low, 0)
		hi := getIdx(x.High, int64(a.Len))
		mx := getIdx(x.Max, int64(a.Cap))
		if lo < 0 || hi < lo || mx < hi || mx > int64(a.Cap) {
			goPanic("slice bounds out of range [%d:%d:%d] with capacity %d in %s", lo, hi, mx, a.Cap, fr.fn)
		}
		if a.Nil && lo == 0 && hi == 0 {
			return &Slice{Nil: true}
		}
		return &Slice{Arr: a.Arr, Off: a.Off + int(lo), Len: int(hi - lo), Cap: int(mx - lo), Stamp: a.Stamp}
	case *Ptr:
		if a.P == nil {
			goPanic("nil pointer dereference (slice of array) in %s", fr.fn)
		}
		arr := (*a.P).(Array)
		lo := getIdx(x.Low, 0)
		hi := getIdx(x.High, int64(len(arr)))
		mx := getIdx(x.Max, int64(len(arr)))
		if lo < 0 || hi < lo || mx < hi || mx > int64(len(arr)) {
			goPanic("slice bounds out of range [%d:%d] with capacity %d in %s", lo, hi, len(arr), fr.fn)
		}
		return &Slice{Arr: arr, Off: int(lo), Len: int(hi - lo), Cap: int(mx - lo), Stamp: a.Stamp}
	}
	unsup("slice of %T", c)
	return nil
}

func (in *Interp) rangeIter(fr *frame, x *ssa.Range) Value {
	c := in.get(fr, x.X)
	switch a := c.(type) {
	case Str:
		return &RangeIter{Str: &a}
	case *Map:
		if fr.fn.Pkg != nil && strings.HasPrefix(fr.fn.Pkg.Pkg.Path(), in.P.modPath) && !strings.Contains(fr.fn.Pkg.Pkg.Path(), "/zz") {
			in.note("range over map in " + fr.fn.String())
			if in.run != nil {
				in.run.nondet(in, "range over map in "+fr.fn.String())
			}
		}
		keys := make([]mapEntry, len(a.Ents))
		copy(keys, a.Ents)
		return &RangeIter{Map: a, Keys: keys}
	}
	unsup("range over %T", c)
	return nil
}

func (in *Interp) next(fr *frame, x *ssa.Next) Value {
	it := in.get(fr, x.Iter).(*RangeIter)
	if x.IsString {
		s := it.Str.B
		if it.Pos >= len(s) {
			return Tuple{in.tb.False, in.tb.Int(0), in.tb.Int(0)}
		}
		pos := it.Pos
		r, w := in.decodeRune(s[pos:])
		it.Pos += w
		return Tuple{in.tb.True, in.tb.Int(int64(pos)), r}
	}
	if it.Pos >= len(it.Keys) {
		return Tuple{in.tb.False, in.zero(it.Map.KeyT), in.zero(it.Map.ValT)}
	}
	e := it.Keys[it.Pos]
	it.Pos++
	return Tuple{in.tb.True, e.K, copyVal(e.V)}
}

// decodeRune decodes the first rune of a byte-term sequence: ASCII symbolic bytes are supported,
// non-ASCII bytes must be concrete.
func (in *Interp) decodeRune(s []*Term) (*Term, int) {
	b0 := s[0]
	if in.branch(in.tb.Lt(b0, in.tb.Int(0x80))) {
		return b0, 1
	}
	// non-ASCII lead byte: utf8.DecodeRuneInString with symbolic bytes. Every decision is a byte-class
	// branch; the rune is linear in the bytes because the masked bits are fixed by the classes.
	tb := in.tb
	rng := func(lo, hi int) ByteSet {
		var bs ByteSet
		for c := lo; c <= hi; c++ {
			bs.Add(c)
		}
		return bs
	}
	inRange := func(t *Term, lo, hi int) bool { return in.branch(tb.InSet(t, rng(lo, hi))) }
	runeErr := tb.Int(0xFFFD)
	cont := func(i int) bool { return i < len(s) && inRange(s[i], 0x80, 0xBF) }
	off := func(t *Term, base int64) *Term { return tb.Sub(t, tb.Int(base)) }
	switch {
	case inRange(b0, 0xC2, 0xDF):
		if !cont(1) {
			return runeErr, 1
		}
		return in.boundedRune(tb.Add(tb.Mul(off(b0, 0xC0), tb.Int(64)), off(s[1], 0x80)), 0x80, 0x7FF), 2
	case inRange(b0, 0xE0, 0xEF):
		lo, hi := 0x80, 0xBF
		if in.branch(tb.Eq(b0, tb.Int(0xE0))) {
			lo = 0xA0
		} else if in.branch(tb.Eq(b0, tb.Int(0xED))) {
			hi = 0x9F
		}
		if len(s) < 2 || !inRange(s[1], lo, hi) || !cont(2) {
			return runeErr, 1
		}
		return in.boundedRune(tb.Add(tb.Add(tb.Mul(off(b0, 0xE0), tb.Int(4096)), tb.Mul(off(s[1], 0x80), tb.Int(64))), off(s[2], 0x80)), 0x800, 0xFFFF), 3
	case inRange(b0, 0xF0, 0xF4):
		lo, hi := 0x80, 0xBF
		if in.branch(tb.Eq(b0, tb.Int(0xF0))) {
			lo = 0x90
		} else if in.branch(tb.Eq(b0, tb.Int(0xF4))) {
			hi = 0x8F
		}
		if len(s) < 2 || !inRange(s[1], lo, hi) || !cont(2) || !cont(3) {
			return runeErr, 1
		}
		r := tb.Add(tb.Mul(off(b0, 0xF0), tb.Int(262144)), tb.Mul(off(s[1], 0x80), tb.Int(4096)))
		return in.boundedRune(tb.Add(r, tb.Add(tb.Mul(off(s[2], 0x80), tb.Int(64)), off(s[3], 0x80))), 0x10000, 0x10FFFF), 4
	}
	return runeErr, 1
}

// boundedRune records the range a decoded rune has by construction (the byte classes that led to
// this formula are part of the path condition wherever the term is built).
func (in *Interp) boundedRune(t *Term, lo, hi int64) *Term {
	if in.runeBounds == nil {
		in.runeBounds = map[*Term][2]int64{}
	}
	in.runeBounds[t] = [2]int64{lo, hi}
	return t
}

// runeRange: the tightest known range of a rune term.
func (in *Interp) runeRange(t *Term) (int64, int64, bool) {
	if b, ok := in.runeBounds[t]; ok {
		return b[0], b[1], true
	}
	if t.lo != nil && t.hi != nil && t.lo.IsInt64() && t.hi.IsInt64() {
		return t.lo.Int64(), t.hi.Int64(), true
	}
	return 0, 0, false
}

func allConcretePrefix(s []*Term, n int) bool {
	for i := 0; i < n && i < len(s); i++ {
		if _, ok := s[i].Int64(); !ok {
			return false
		}
	}
	return true
}

func (in *Interp) lookup(fr *frame, x *ssa.Lookup) Value {
	c := in.get(fr, x.X)
	switch a := c.(type) {
	case Str:
		idx := in.concretizeInt(in.get(fr, x.Index).(*Term), "string index")
		if idx < 0 || int(idx) >= len(a.B) {
			goPanic("index out of range [%d] with length %d (string) in %s", idx, len(a.B), fr.fn)
		}
		return a.B[idx]
	case *Map:
		v, ok := in.mapLookup(a, in.get(fr, x.Index))
		if x.CommaOk {
			return Tuple{v, ok}
		}
		return v
	}
	unsup("lookup on %T", c)
	return nil
}

// keyEq returns the condition under which two map keys are equal.
func (in *Interp) keyEq(a, b Value) *Term {
	switch x := a.(type) {
	case *Term:
		return in.tb.Eq(x, b.(*Term))
	case Str:
		return in.strEq(x, b.(Str))
	case Iface:
		y := b.(Iface)
		if x.T == nil || y.T == nil {
			return in.tb.Bool(x.T == nil && y.T == nil)
		}
		if !types.Identical(x.T, y.T) {
			return in.tb.False
		}
		return in.keyEq(x.V, y.V)
	case Struct:
		y := b.(Struct)
		r := in.tb.True
		for i := range x {
			r = in.tb.And(r, in.keyEq(x[i], y[i]))
		}
		return r
	case *Ptr:
		return in.tb.Bool(x.P == b.(*Ptr).P)
	}
	unsup("map key of type %T", a)
	return nil
}

func (in *Interp) mapLookup(m *Map, key Value) (Value, *Term) {
	zero := in.zero(m.ValT)
	if m.Nil || len(m.Ents) == 0 {
		return zero, in.tb.False
	}
	conds := make([]*Term, 0, len(m.Ents))
	ents := make([]mapEntry, 0, len(m.Ents))
	for _, e := range m.Ents {
		c := in.keyEq(e.K, key)
		if c.IsFalse() {
			continue
		}
		if c.IsTrue() {
			if len(conds) == 0 {
				return copyVal(e.V), in.tb.True
			}
		}
		conds = append(conds, c)
		ents = append(ents, e)
		if c.IsTrue() {
			break
		}
	}
	if len(conds) == 0 {
		return zero, in.tb.False
	}
	// scalar values: merge without forking
	allScalar := true
	if _, ok := zero.(*Term); !ok {
		allScalar = false
	}
	if allScalar {
		res := zero.(*Term)
		found := in.tb.False
		for i := len(conds) - 1; i >= 0; i-- {
			res = in.tb.Ite(conds[i], ents[i].V.(*Term), res)
			found = in.tb.Or(conds[i], found)
		}
		return res, found
	}
	alts := make([]*Term, 0, len(conds)+1)
	none := in.tb.True
	for _, c := range conds {
		alts = append(alts, in.tb.And(none, c))
		none = in.tb.And(none, in.tb.Not(c))
	}
	alts = append(alts, none)
	i := in.fork(alts)
	if i == len(conds) {
		return zero, in.tb.False
	}
	return copyVal(ents[i].V), in.tb.True
}

func (in *Interp) mapUpdate(fr *frame, m *Map, key, val Value) {
	if m.Nil {
		goPanic("assignment to entry in nil map in %s", fr.fn)
	}
	in.checkWrite(m.Stamp, "map update in "+fr.fn.String())
	val = copyVal(val)
	var alts []*Term
	var idxs []int
	none := in.tb.True
	for i, e := range m.Ents {
		c := in.keyEq(e.K, key)
		if c.IsFalse() {
			continue
		}
		alts = append(alts, in.tb.And(none, c))
		idxs = append(idxs, i)
		none = in.tb.And(none, in.tb.Not(c))
		if c.IsTrue() {
			break
		}
	}
	alts = append(alts, none)
	i := in.fork(alts)
	if i < len(idxs) {
		// copy-on-write of the entry list is not needed: re-execution rebuilds maps per path
		m.Ents[idxs[i]].V = val
		return
	}
	m.Ents = append(m.Ents, mapEntry{key, val})
}

func (in *Interp) mapDelete(m *Map, key Value) {
	if m.Nil {
		return
	}
	in.checkWrite(m.Stamp, "map delete")
	var alts []*Term
	var idxs []int
	none := in.tb.True
	for i, e := range m.Ents {
		c := in.keyEq(e.K, key)
		if c.IsFalse() {
			continue
		}
		alts = append(alts, in.tb.And(none, c))
		idxs = append(idxs, i)
		none = in.tb.And(none, in.tb.Not(c))
	}
	alts = append(alts, none)
	i := in.fork(alts)
	if i < len(idxs) {
		k := idxs[i]
		ne := make([]mapEntry, 0, len(m.Ents)-1)
		ne = append(ne, m.Ents[:k]...)
		ne = append(ne, m.Ents[k+1:]...)
		m.Ents = ne
	}
}

// fnPkgPath: package path of a function, also for instantiations of generic functions.
func fnPkgPath(fn *ssa.Function) string {
	if fn.Pkg != nil {
		return fn.Pkg.Pkg.Path()
	}
	if o := fn.Origin(); o != nil && o.Pkg != nil {
		return o.Pkg.Pkg.Path()
	}
	if fn.Object() != nil && fn.Object().Pkg() != nil {
		return fn.Object().Pkg().Path()
	}
	return ""
}
