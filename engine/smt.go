package main

// SMT-LIB2 emission and a persistent solver process (z3 -in / cvc5 --incremental).

import (
	"sync/atomic"
	"bufio"
	"os"
	"fmt"
	"io"
	"math/big"
	"os/exec"
	"strings"
	"time"
)

type Solver struct {
	name    string
	cmd     *exec.Cmd
	in      io.WriteCloser
	out     *bufio.Reader
	emitted map[int32]bool // term ids with a define-fun / declare-const at top level
	tb      *TB
	timeout int // ms
	Queries int
	Unsat   int
	Sat     int
	Unknown int
	Time    time.Duration
	log     io.Writer
	dead    bool
	// optional second solver: every crossEvery-th definite verdict is re-decided by it; a
	// definite, different answer turns the verdict into unknown (reported as inconclusive)
	cross      *Solver
	crossEvery int
	crossN     int
	// fallback solver (cvc5), started on the first query the primary solver answers "unknown" to:
	// nonlinear / div-mod heavy queries (calendar arithmetic) that one solver gives up on and the
	// other decides; a sat answer is replayed natively like any other
	fallback     *Solver
	fallbackDead bool
}

// cross-solver statistics of the whole run
var crossCompared, crossAgreed, crossDisagreed, crossSecondUnknown int64

// queries the primary solver answered "unknown" to, and how many of them the fallback solver decided
var fallbackAsked, fallbackDecided int64
var fallbackOff = os.Getenv("VX_FALLBACK") == "off"

// AttachCross starts a second solver of the given kind next to s.
func (s *Solver) AttachCross(name string, every int, timeoutMs int) error {
	c, err := NewSolver(name, s.tb, timeoutMs)
	if err != nil {
		return err
	}
	c.log = nil
	s.cross = c
	s.crossEvery = every
	return nil
}

func solverArgs(name string, timeoutMs int) (string, []string) {
	switch name {
	case "cvc5":
		return "cvc5", []string{"--incremental", "--produce-models", "--lang=smt2", fmt.Sprintf("--tlimit-per=%d", timeoutMs)}
	case "z3-new":
		return "z3-new", []string{"-in", "-smt2"}
	default:
		return "/usr/bin/z3", []string{"-in", "-smt2"}
	}
}

func NewSolver(name string, tb *TB, timeoutMs int) (*Solver, error) {
	bin, args := solverArgs(name, timeoutMs)
	cmd := exec.Command(bin, args...)
	in, err := cmd.StdinPipe()
	if err != nil {
		return nil, err
	}
	out, err := cmd.StdoutPipe()
	if err != nil {
		return nil, err
	}
	cmd.Stderr = nil
	if err := cmd.Start(); err != nil {
		return nil, err
	}
	s := &Solver{name: name, cmd: cmd, in: in, out: bufio.NewReaderSize(out, 1<<16), emitted: map[int32]bool{}, tb: tb, timeout: timeoutMs}
	if p := os.Getenv("VX_SMTLOG"); p != "" {
		f, err := os.Create(p)
		if err == nil {
			s.log = f
		}
	}
	s.preamble()
	return s, nil
}

func (s *Solver) preamble() {
	if s.log != nil {
		fmt.Fprintf(s.log, "(reset)\n(set-option :timeout %d)\n(set-option :produce-models true)\n", s.timeout)
	}
	if s.name != "cvc5" {
		fmt.Fprintf(s.in, "(set-option :timeout %d)\n", s.timeout)
	} else {
		fmt.Fprintf(s.in, "(set-logic ALL)\n")
	}
	fmt.Fprintf(s.in, "(set-option :produce-models true)\n")
}

func (s *Solver) Close() {
	if s == nil || s.cmd == nil {
		return
	}
	if s.cross != nil {
		s.cross.Close()
	}
	if s.fallback != nil {
		s.fallback.Close()
	}
	s.in.Close()
	done := make(chan struct{})
	go func() { s.cmd.Wait(); close(done) }()
	select {
	case <-done:
	case <-time.After(2 * time.Second):
		s.cmd.Process.Kill()
	}
}

// Reset forgets everything (new term builder per configuration).
func (s *Solver) Reset(tb *TB) {
	if s.cross != nil {
		s.cross.Reset(tb)
	}
	if s.fallback != nil {
		s.fallback.Reset(tb)
	}
	s.tb = tb
	s.emitted = map[int32]bool{}
	if s.name == "cvc5" {
		// cvc5 1.0 supports (reset)
		fmt.Fprintf(s.in, "(reset)\n")
	} else {
		fmt.Fprintf(s.in, "(reset)\n")
	}
	s.preamble()
}

func tname(t *Term) string {
	if t.op == OVar {
		return t.name
	}
	return fmt.Sprintf("t%d", t.id)
}

func bigLit(v *big.Int) string {
	if v.Sign() < 0 {
		return "(- " + new(big.Int).Neg(v).String() + ")"
	}
	return v.String()
}

// ref returns the SMT text referring to t (a name for defined nodes, inline for leaves).
func (s *Solver) ref(t *Term) string {
	switch t.op {
	case OConst:
		if t.sort == SBool {
			if t.val.Sign() != 0 {
				return "true"
			}
			return "false"
		}
		return bigLit(t.val)
	case OVar:
		return t.name
	}
	return tname(t)
}

func setExpr(x string, set *ByteSet) string {
	var parts []string
	b := 0
	for b < 256 {
		if !set.Has(b) {
			b++
			continue
		}
		e := b
		for e+1 < 256 && set.Has(e+1) {
			e++
		}
		if e == b {
			parts = append(parts, fmt.Sprintf("(= %s %d)", x, b))
		} else {
			parts = append(parts, fmt.Sprintf("(and (<= %d %s) (<= %s %d))", b, x, x, e))
		}
		b = e + 1
	}
	if len(parts) == 0 {
		return "false"
	}
	if len(parts) == 1 {
		return parts[0]
	}
	return "(or " + strings.Join(parts, " ") + ")"
}

// define emits declarations/definitions for every node reachable from t that has none yet.
func (s *Solver) define(t *Term, w *strings.Builder) {
	if t.op == OConst || s.emitted[t.id] {
		return
	}
	// iterative post-order to avoid deep recursion
	type fr struct {
		t *Term
		i int
	}
	st := []fr{{t, 0}}
	for len(st) > 0 {
		f := &st[len(st)-1]
		x := f.t
		if x.op == OConst || s.emitted[x.id] {
			st = st[:len(st)-1]
			continue
		}
		kids := [3]*Term{x.a, x.b, x.c}
		pushed := false
		for f.i < 3 {
			k := kids[f.i]
			f.i++
			if k != nil && k.op != OConst && !s.emitted[k.id] {
				st = append(st, fr{k, 0})
				pushed = true
				break
			}
		}
		if pushed {
			continue
		}
		s.emitOne(x, w)
		s.emitted[x.id] = true
		st = st[:len(st)-1]
	}
}

func (s *Solver) emitOne(x *Term, w *strings.Builder) {
	srt := "Int"
	if x.sort == SBool {
		srt = "Bool"
	}
	if x.op == OVar {
		fmt.Fprintf(w, "(declare-const %s %s)\n", x.name, srt)
		if x.sort == SInt {
			if x.lo != nil {
				fmt.Fprintf(w, "(assert (<= %s %s))\n", bigLit(x.lo), x.name)
			}
			if x.hi != nil {
				fmt.Fprintf(w, "(assert (<= %s %s))\n", x.name, bigLit(x.hi))
			}
		}
		return
	}
	var body string
	a, b, c := "", "", ""
	if x.a != nil {
		a = s.ref(x.a)
	}
	if x.b != nil {
		b = s.ref(x.b)
	}
	if x.c != nil {
		c = s.ref(x.c)
	}
	switch x.op {
	case OAdd:
		body = fmt.Sprintf("(+ %s %s)", a, b)
	case OSub:
		body = fmt.Sprintf("(- %s %s)", a, b)
	case OMul:
		body = fmt.Sprintf("(* %s %s)", a, b)
	case ODivF:
		body = fmt.Sprintf("(div %s %s)", a, b)
	case OModF:
		body = fmt.Sprintf("(mod %s %s)", a, b)
	case ODivT:
		// truncated: sign-adjusted floor division
		body = fmt.Sprintf("(ite (>= %s 0) (ite (> %s 0) (div %s %s) (- (div %s (- %s)))) (ite (> %s 0) (- (div (- %s) %s)) (div (- %s) (- %s))))", a, b, a, b, a, b, b, a, b, a, b)
	case ORemT:
		// a - b*trunc(a/b); sign follows a
		body = fmt.Sprintf("(ite (>= %s 0) (mod %s (abs %s)) (- (mod (- %s) (abs %s))))", a, a, b, a, b)
	case OIte:
		body = fmt.Sprintf("(ite %s %s %s)", a, b, c)
	case OEq:
		body = fmt.Sprintf("(= %s %s)", a, b)
	case OLt:
		body = fmt.Sprintf("(< %s %s)", a, b)
	case OLe:
		body = fmt.Sprintf("(<= %s %s)", a, b)
	case OAnd:
		body = fmt.Sprintf("(and %s %s)", a, b)
	case OOr:
		body = fmt.Sprintf("(or %s %s)", a, b)
	case ONot:
		body = fmt.Sprintf("(not %s)", a)
	case OInSet:
		body = setExpr(a, x.set)
	case OBitAnd, OBitOr, OBitXor:
		f := map[Op]string{OBitAnd: "bvand", OBitOr: "bvor", OBitXor: "bvxor"}[x.op]
		u := fmt.Sprintf("(bv2nat (%s ((_ int2bv %d) %s) ((_ int2bv %d) %s)))", f, x.bits, a, x.bits, b)
		if x.signed {
			// two's complement: operands may be negative, the result is read as a signed 32-bit value
			body = fmt.Sprintf("(let ((u %s)) (ite (>= u 2147483648) (- u 4294967296) u))", u)
		} else {
			body = u
		}
	case OWrap:
		lo, _ := cachedTypeRange(x.bits, x.signed)
		m := new(big.Int).Lsh(big.NewInt(1), uint(x.bits))
		body = fmt.Sprintf("(+ (mod (- %s %s) %s) %s)", a, bigLit(lo), m.String(), bigLit(lo))
	default:
		panic("emit: unknown op")
	}
	fmt.Fprintf(w, "(define-fun %s () %s %s)\n", tname(x), srt, body)
}

type Verdict int

const (
	VUnsat Verdict = iota
	VSat
	VUnknown
)

func (v Verdict) String() string { return [...]string{"unsat", "sat", "unknown"}[v] }

// Check asks whether the conjunction of asserts (plus global side constraints) is satisfiable.
// If sat and wantModel != nil, values of those variables are returned.
func (s *Solver) Check(asserts []*Term, side []*Term, modelVars []*Term) (Verdict, map[*Term]*big.Int, string) {
	if s.dead {
		return VUnknown, nil, "solver dead"
	}
	t0 := time.Now()
	defer func() { s.Time += time.Since(t0); s.Queries++ }()
	var w strings.Builder
	for _, a := range asserts {
		s.define(a, &w)
	}
	for _, a := range side {
		s.define(a, &w)
	}
	for _, v := range modelVars {
		s.define(v, &w)
	}
	w.WriteString("(push 1)\n")
	for _, a := range side {
		fmt.Fprintf(&w, "(assert %s)\n", s.ref(a))
	}
	for _, a := range asserts {
		fmt.Fprintf(&w, "(assert %s)\n", s.ref(a))
	}
	w.WriteString("(check-sat)\n(echo \"<<cs>>\")\n")
	if s.log != nil {
		io.WriteString(s.log, w.String())
	}
	if _, err := io.WriteString(s.in, w.String()); err != nil {
		s.dead = true
		return VUnknown, nil, "write: " + err.Error()
	}
	lines, err := s.readUntil("<<cs>>")
	if err != nil {
		s.dead = true
		return VUnknown, nil, "read: " + err.Error()
	}
	verdict := VUnknown
	note := ""
	for _, l := range lines {
		switch {
		case strings.HasPrefix(l, "(error"):
			note = l
			verdict = VUnknown
			goto done
		case l == "unsat":
			verdict = VUnsat
		case l == "sat":
			verdict = VSat
		case l == "unknown" || l == "timeout":
			verdict = VUnknown
			note = "unknown"
		}
	}
done:
	var model map[*Term]*big.Int
	if verdict == VSat && len(modelVars) > 0 && note == "" {
		var q strings.Builder
		q.WriteString("(get-value (")
		for _, v := range modelVars {
			q.WriteString(v.name + " ")
		}
		q.WriteString("))\n(echo \"<<gv>>\")\n")
		io.WriteString(s.in, q.String())
		ml, err := s.readUntil("<<gv>>")
		if err != nil {
			s.dead = true
			return VUnknown, nil, "read model: " + err.Error()
		}
		model = parseModel(strings.Join(ml, " "), modelVars)
		if model == nil {
			verdict = VUnknown
			note = "model parse: " + strings.Join(ml, " ")
		}
	}
	io.WriteString(s.in, "(pop 1)\n")
	if verdict == VUnknown && note == "unknown" && s.name != "cvc5" && !fallbackOff && !s.fallbackDead {
		fb := s.fallback
		if fb == nil && s.cross != nil && s.cross.name == "cvc5" && !s.cross.dead {
			fb = s.cross
		}
		if fb == nil {
			if c, err := NewSolver("cvc5", s.tb, s.timeout); err == nil {
				c.log = nil
				s.fallback = c
				fb = c
			} else {
				s.fallbackDead = true
			}
		}
		if fb != nil {
			atomic.AddInt64(&fallbackAsked, 1)
			v2, m2, n2 := fb.Check(asserts, side, modelVars)
			if fb.dead && fb == s.fallback {
				s.fallback = nil
			}
			if v2 != VUnknown && n2 == "" {
				atomic.AddInt64(&fallbackDecided, 1)
				verdict, model, note = v2, m2, ""
			}
		}
	}
	if s.cross != nil && verdict != VUnknown {
		s.crossN++
		if s.crossN%s.crossEvery == 0 && !s.cross.dead {
			v2, _, _ := s.cross.Check(asserts, side, nil)
			atomic.AddInt64(&crossCompared, 1)
			switch {
			case v2 == VUnknown:
				atomic.AddInt64(&crossSecondUnknown, 1)
			case v2 == verdict:
				atomic.AddInt64(&crossAgreed, 1)
			default:
				atomic.AddInt64(&crossDisagreed, 1)
				note = fmt.Sprintf("solver disagreement: %s answers %s, %s answers %s", s.name, verdict, s.cross.name, v2)
				verdict = VUnknown
				model = nil
			}
		}
	}
	switch verdict {
	case VUnsat:
		s.Unsat++
	case VSat:
		s.Sat++
	default:
		s.Unknown++
	}
	return verdict, model, note
}

func (s *Solver) readUntil(marker string) ([]string, error) {
	var lines []string
	for {
		l, err := s.out.ReadString('\n')
		if err != nil {
			return lines, err
		}
		l = strings.TrimSpace(l)
		if l == marker || l == "\""+marker+"\"" {
			return lines, nil
		}
		if l != "" {
			lines = append(lines, l)
		}
	}
}

// parseModel parses ((x 1) (y (- 2)) (b true))
func parseModel(s string, vars []*Term) map[*Term]*big.Int {
	if strings.Contains(s, "(error") {
		return nil
	}
	byName := map[string]*Term{}
	for _, v := range vars {
		byName[v.name] = v
	}
	m := map[*Term]*big.Int{}
	toks := tokenize(s)
	// expect ( ( name value ) ... )
	i := 0
	if i >= len(toks) || toks[i] != "(" {
		return nil
	}
	i++
	for i < len(toks) && toks[i] == "(" {
		i++
		if i >= len(toks) {
			return nil
		}
		name := toks[i]
		i++
		// value: atom or ( - atom )
		var val *big.Int
		if i < len(toks) && toks[i] == "(" {
			if i+3 < len(toks) && toks[i+1] == "-" && toks[i+3] == ")" {
				v, ok := new(big.Int).SetString(toks[i+2], 10)
				if !ok {
					return nil
				}
				val = v.Neg(v)
				i += 4
			} else {
				return nil
			}
		} else if i < len(toks) {
			switch toks[i] {
			case "true":
				val = big.NewInt(1)
			case "false":
				val = big.NewInt(0)
			default:
				v, ok := new(big.Int).SetString(toks[i], 10)
				if !ok {
					return nil
				}
				val = v
			}
			i++
		}
		if i >= len(toks) || toks[i] != ")" {
			return nil
		}
		i++
		if v, ok := byName[name]; ok {
			m[v] = val
		}
	}
	return m
}

func tokenize(s string) []string {
	var toks []string
	cur := strings.Builder{}
	flush := func() {
		if cur.Len() > 0 {
			toks = append(toks, cur.String())
			cur.Reset()
		}
	}
	for _, r := range s {
		switch r {
		case '(', ')':
			flush()
			toks = append(toks, string(r))
		case ' ', '\t', '\n', '\r':
			flush()
		default:
			cur.WriteRune(r)
		}
	}
	flush()
	return toks
}
