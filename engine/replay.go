package main

// Native replay: every solver model (counterexample or reachability witness) is turned into
// concrete arguments and the same harness function is executed natively against /repo's working
// tree with `go test -overlay`. Only natively reproduced assertion failures become violations.

import (
	"bufio"
	"bytes"
	"encoding/json"
	"fmt"
	"go/types"
	"os"
	"os/exec"
	"path/filepath"
	"sort"
	"strings"
)

type ReplayCase struct {
	ID     string   `json:"id"`
	Func   string   `json:"func"`
	Args   []string `json:"args"`
	Active []string `json:"active"`
}

type ReplayOutcome struct {
	ID      string `json:"id"`
	Outcome string `json:"outcome"` // ok | assume | assert | panic | timeout | nofunc
	Msg     string `json:"msg"`
	Asserts int    `json:"asserts"`
}

// genReplayTest writes the source of a test file that dispatches replay cases to the exported
// harness functions (string/int/bool parameters) of one package.
func (p *Program) genReplayTest(pkgPath string) (string, error) {
	sp := p.pkgs[pkgPath]
	if sp == nil {
		return "", fmt.Errorf("package %s not loaded", pkgPath)
	}
	var sb strings.Builder
	fmt.Fprintf(&sb, "package %s\n\n", sp.Pkg.Name())
	sb.WriteString(`import (
	"bufio"
	"encoding/json"
	"fmt"
	"os"
	"strconv"
	"testing"
	"time"

	vxvv "` + p.vvPath + `"
)

type vxCase struct {
	ID     string   ` + "`json:\"id\"`" + `
	Func   string   ` + "`json:\"func\"`" + `
	Args   []string ` + "`json:\"args\"`" + `
	Active []string ` + "`json:\"active\"`" + `
}

type vxOut struct {
	ID      string ` + "`json:\"id\"`" + `
	Outcome string ` + "`json:\"outcome\"`" + `
	Msg     string ` + "`json:\"msg\"`" + `
	Asserts int    ` + "`json:\"asserts\"`" + `
}

func vxS(a string) string {
	s, err := strconv.Unquote(a)
	if err != nil {
		panic("bad replay string " + a)
	}
	return s
}
func vxI(a string) int {
	i, err := strconv.Atoi(a)
	if err != nil {
		panic("bad replay int " + a)
	}
	return i
}
func vxB(a string) bool { return a == "true" }

var vxReg = map[string]func(a []string){
`)
	names := []string{}
	for name, m := range sp.Members {
		_ = m
		names = append(names, name)
	}
	sort.Strings(names)
	for _, name := range names {
		fn := sp.Func(name)
		if fn == nil || fn.Signature.Recv() != nil || fn.TypeParams().Len() > 0 {
			continue
		}
		if !isHarnessName(name) {
			continue
		}
		ps := fn.Signature.Params()
		ok := true
		var call []string
		for i := 0; i < ps.Len(); i++ {
			t := ps.At(i).Type()
			switch {
			case isStringType(t) && types.Identical(t, types.Typ[types.String]):
				call = append(call, fmt.Sprintf("vxS(a[%d])", i))
			case types.Identical(t, types.Typ[types.Int]):
				call = append(call, fmt.Sprintf("vxI(a[%d])", i))
			case types.Identical(t, types.Typ[types.Bool]):
				call = append(call, fmt.Sprintf("vxB(a[%d])", i))
			default:
				ok = false
			}
		}
		if !ok {
			continue
		}
		fmt.Fprintf(&sb, "\t%q: func(a []string) { %s(%s) },\n", name, name, strings.Join(call, ", "))
	}
	sb.WriteString(`}

func vxRunOne(c vxCase) (out vxOut) {
	out.ID = c.ID
	f, ok := vxReg[c.Func]
	if !ok {
		out.Outcome = "nofunc"
		return
	}
	vxvv.SetActive(c.Active)
	vxvv.Asserts = 0
	defer func() {
		out.Asserts = vxvv.Asserts
		if r := recover(); r != nil {
			switch e := r.(type) {
			case vxvv.AssumeFailed:
				out.Outcome = "assume"
			case vxvv.AssertFailed:
				out.Outcome = "assert"
				out.Msg = e.Msg
			default:
				out.Outcome = "panic"
				out.Msg = fmt.Sprint(r)
			}
		}
	}()
	f(c.Args)
	out.Outcome = "ok"
	return
}

func TestVXReplay(t *testing.T) {
	path := os.Getenv("VX_CASES")
	if path == "" {
		t.Skip("no VX_CASES")
	}
	data, err := os.ReadFile(path)
	if err != nil {
		t.Fatal(err)
	}
	var cases []vxCase
	if err := json.Unmarshal(data, &cases); err != nil {
		t.Fatal(err)
	}
	w := bufio.NewWriter(os.Stdout)
	defer w.Flush()
	for _, c := range cases {
		done := make(chan vxOut, 1)
		go func() { done <- vxRunOne(c) }()
		var o vxOut
		select {
		case o = <-done:
		case <-time.After(10 * time.Second):
			o = vxOut{ID: c.ID, Outcome: "timeout"}
			b, _ := json.Marshal(o)
			fmt.Fprintf(w, "VXR %s\n", b)
			w.Flush()
			os.Exit(3)
		}
		b, _ := json.Marshal(o)
		fmt.Fprintf(w, "VXR %s\n", b)
	}
}
`)
	return sb.String(), nil
}

func isHarnessName(name string) bool {
	if len(name) < 2 {
		return false
	}
	// exported harness entry points are named C<nn>... or V... (kernels) or Self...
	if name[0] == 'C' && name[1] >= '0' && name[1] <= '9' {
		return true
	}
	return strings.HasPrefix(name, "VX")
}

// Replay runs the cases of one package natively and returns outcomes by case id.
func (p *Program) Replay(pkgPath string, cases []ReplayCase, race bool) (map[string]ReplayOutcome, error) {
	out := map[string]ReplayOutcome{}
	if len(cases) == 0 {
		return out, nil
	}
	tmp, err := os.MkdirTemp("", "vxreplay")
	if err != nil {
		return nil, err
	}
	defer os.RemoveAll(tmp)
	src, err := p.genReplayTest(pkgPath)
	if err != nil {
		return nil, err
	}
	testFile := filepath.Join(tmp, "zz_vxreplay_test.go")
	if err := os.WriteFile(testFile, []byte(src), 0o644); err != nil {
		return nil, err
	}
	rel := strings.TrimPrefix(pkgPath, p.modPath)
	dir := filepath.Join(repoDir, rel)
	replace := map[string]string{}
	for virt, real := range p.overlayFiles {
		replace[virt] = real
	}
	for virt, data := range p.overlay {
		if _, ok := replace[virt]; ok {
			continue
		}
		// overlay content without a backing file (generated): write it out
		f := filepath.Join(tmp, fmt.Sprintf("ov%d.go", len(replace)))
		os.WriteFile(f, data, 0o644)
		replace[virt] = f
	}
	replace[filepath.Join(dir, "zz_vxreplay_test.go")] = testFile
	ovJSON, _ := json.Marshal(map[string]interface{}{"Replace": replace})
	ovFile := filepath.Join(tmp, "overlay.json")
	os.WriteFile(ovFile, ovJSON, 0o644)
	casesJSON, _ := json.Marshal(cases)
	casesFile := filepath.Join(tmp, "cases.json")
	os.WriteFile(casesFile, casesJSON, 0o644)
	bin := filepath.Join(tmp, "replay.test")
	args := []string{"test", "-c", "-vet=off", "-overlay", ovFile, "-o", bin}
	if race {
		args = append(args, "-race")
	}
	args = append(args, "./"+strings.TrimPrefix(rel, "/"))
	build := exec.Command("go", args...)
	build.Dir = repoDir
	build.Env = append(goEnv(), "GOCACHE="+goCacheDir())
	if bo, err := build.CombinedOutput(); err != nil {
		return out, fmt.Errorf("native replay build failed: %v\n%s", err, string(bo))
	}
	runOnce := func(cf string) (string, error) {
		cmd := exec.Command(bin, "-test.run", "^TestVXReplay$", "-test.timeout", "20m")
		cmd.Dir = tmp
		cmd.Env = append(os.Environ(), "VX_CASES="+cf)
		var buf bytes.Buffer
		cmd.Stdout = &buf
		cmd.Stderr = &buf
		err := cmd.Run()
		return buf.String(), err
	}
	parse := func(text string) []string {
		var other []string
		sc := bufio.NewScanner(strings.NewReader(text))
		sc.Buffer(make([]byte, 1<<20), 1<<26)
		for sc.Scan() {
			l := sc.Text()
			if i := strings.Index(l, "VXR "); i >= 0 {
				var o ReplayOutcome
				if json.Unmarshal([]byte(l[i+4:]), &o) == nil {
					out[o.ID] = o
					continue
				}
			}
			other = append(other, l)
		}
		return other
	}
	if race {
		// one process per case, so that a data race report is attributed to the case that ran
		for i, c := range cases {
			cf := filepath.Join(tmp, fmt.Sprintf("case%d.json", i))
			b, _ := json.Marshal([]ReplayCase{c})
			os.WriteFile(cf, b, 0o644)
			text, _ := runOnce(cf)
			if os.Getenv("VX_RACEDBG") != "" {
				fmt.Fprintln(os.Stderr, "RACE RUN", c.ID, text)
			}
			parse(text)
			if strings.Contains(text, "DATA RACE") {
				o := out[c.ID]
				o.ID = c.ID
				if o.Outcome == "" || o.Outcome == "ok" {
					o.Outcome = "race"
					o.Msg = "data race reported by the Go race detector"
				}
				out[c.ID] = o
			}
		}
		return out, nil
	}
	text, runErr := runOnce(casesFile)
	other := parse(text)
	if len(out) == 0 && runErr != nil {
		if len(other) > 30 {
			other = other[:30]
		}
		return out, fmt.Errorf("native replay failed: %v\n%s", runErr, strings.Join(other, "\n"))
	}
	return out, nil
}

func goCacheDir() string {
	if d := os.Getenv("GOCACHE"); d != "" {
		return d
	}
	home, _ := os.UserHomeDir()
	return filepath.Join(home, ".cache", "go-build")
}
