package main

// Spec-side range grammars: comparator forms (from opsTable) and the shorthand constructs each
// ecosystem documents (DESIGN B.4). Used by C20 (all), C05 (shorthands), C18 and C06 (parsing).

import "strings"

// shorthandRanges: constructs with their bases as templates.
func shorthandRanges(eco string) []string {
	switch eco {
	case "npm":
		return []string{"^{d}.{d}.{d}", "^0.{d}.{d}", "^0.0.{d}", "~{d}.{d}.{d}", "{d}.x", "{d}.{d}.x", "{d}.X", "*", "{d}.{d}.{d} - {d}.{d}.{d}", "^{d}.{d}.{d}-{n}", "~{d}.{d}.{d}-{n}", "{d}.{d}.{d}", "^{d}.{d}", "^{d}", "^0.0", "~{d}.{d}", "~{d}"}
	case "cargo":
		return []string{"^{d}.{d}.{d}", "^0.{d}.{d}", "^0.0.{d}", "^{d}.{d}", "^0.0", "^{d}", "~{d}.{d}.{d}", "~{d}.{d}", "~{d}", "*", "{d}.*", "{d}.{d}.*", "{d}.{d}.{d}", "^{d}.{d}.{d}-{n}.{d}", "~{d}.{d}.{d}-{n}"}
	case "composer":
		return []string{"^{d}.{d}.{d}", "^0.{d}.{d}", "^0.0.{d}", "^{d}.{d}", "^0.{d}", "~{d}.{d}", "~{d}.{d}.{d}", "{d}.{d}.*", "{d}.*", "*", "{d}.{d}.{d} - {d}.{d}.{d}", "{d}.{d}.{d}", "^{d}.{d}.{d}-{a}{a}{a}{a}{d}", "{d}.{d}.x"}
	case "conan":
		return []string{"~{d}.{d}", "~{d}.{d}.{d}", "~{d}", "^{d}.{d}.{d}", "^0.{d}.{d}", "^0.0.{d}", "^{d}.{d}", "{d}.{d}.{d}"}
	case "gem":
		return []string{"~> {d}.{d}.{d}", "~> {d}.{d}", "~> {d}", "~>{d}.{d}", "~> {d}.{d}.{d}.{d}", "{d}.{d}.{d}", "~> {d}.{d}.{l}{l}{d}"}
	case "hex":
		return []string{"~>{d}.{d}.{d}", "~>{d}.{d}", "{d}.{d}.{d}", "~>{d}.{d}.{d}-{n}"}
	case "pypi":
		return []string{"~={d}.{d}", "~={d}.{d}.{d}", "=={d}.{d}.*", "!={d}.{d}.*", "=={d}.*", "{d}.{d}", "~={d}.{d}.{d}.{d}"}
	case "nuget", "maven":
		return []string{"[{d}.{d}]", "[{d}.{d},{d}.{d}]", "({d}.{d},{d}.{d})", "[{d}.{d},{d}.{d})", "({d}.{d},{d}.{d}]", "[{d}.{d},)", "({d}.{d},)", "(,{d}.{d}]", "(,{d}.{d})", "{d}.{d}", "[{d}.{d}.{d},{d}.{d}.{d}]", "[{d}.{d}-{a}{a},{d}.{d}]"}
	case "semver":
		return []string{"*", "{d}.{d}.{d}"}
	}
	return nil
}

// comparatorRanges: op+bound forms and two-comparator AND/OR forms.
func comparatorRanges(eco string, bounds []string) []string {
	spec := opsTable[eco]
	var out []string
	for i, op := range spec.ops {
		out = append(out, op+bounds[i%len(bounds)])
	}
	for i, sep := range spec.ands {
		out = append(out, ">="+bounds[i%len(bounds)]+sep+"<"+bounds[(i+1)%len(bounds)])
		out = append(out, ">"+bounds[(i+1)%len(bounds)]+sep+"<="+bounds[i%len(bounds)])
	}
	for i, sep := range spec.ors {
		out = append(out, "<"+bounds[i%len(bounds)]+sep+">="+bounds[(i+1)%len(bounds)])
	}
	if eco == "nuget" {
		out = append(out, ">={d}.{d},<{d}.{d}", ">{d}.{d}.{d},<={d}.{d}.{d}", "!={d}.{d},>={d}.{d}")
	}
	return out
}

func isConjunctive(r string) bool {
	return !strings.Contains(r, "||") && !strings.Contains(r, "!=") && !strings.Contains(r, "<>")
}
