package main

// math/big as used for decimal validation (cran): *big.Int cells hold an unbounded Int term.

import (
	"math/big"

	"golang.org/x/tools/go/ssa"
)

type BigVal struct{ T *Term }

func init() {
	nativeTable["math/big.NewInt"] = func(in *Interp, fn *ssa.Function, args []Value) Value {
		var v Value = BigVal{args[0].(*Term)}
		return &Ptr{P: &v, Stamp: in.newStamp(), Obj: "big.Int"}
	}
	nativeTable["(*math/big.Int).SetString"] = natBigSetString
	nativeTable["(*math/big.Int).Sign"] = func(in *Interp, fn *ssa.Function, args []Value) Value {
		t := in.bigOf(args[0])
		tb := in.tb
		return tb.Ite(tb.Lt(t, tb.Int(0)), tb.Int(-1), tb.Ite(tb.Eq(t, tb.Int(0)), tb.Int(0), tb.Int(1)))
	}
	nativeTable["(*math/big.Int).Cmp"] = func(in *Interp, fn *ssa.Function, args []Value) Value {
		a, b := in.bigOf(args[0]), in.bigOf(args[1])
		tb := in.tb
		return tb.Ite(tb.Lt(a, b), tb.Int(-1), tb.Ite(tb.Eq(a, b), tb.Int(0), tb.Int(1)))
	}
	nativeTable["(*math/big.Int).Int64"] = func(in *Interp, fn *ssa.Function, args []Value) Value {
		return in.tb.Wrap(in.bigOf(args[0]), 64, true)
	}
	nativeTable["(*math/big.Int).IsInt64"] = func(in *Interp, fn *ssa.Function, args []Value) Value {
		t := in.bigOf(args[0])
		lo, hi := cachedTypeRange(64, true)
		return in.tb.And(in.tb.Le(in.tb.Big(lo), t), in.tb.Le(t, in.tb.Big(hi)))
	}
	nativeTable["(*math/big.Int).String"] = func(in *Interp, fn *ssa.Function, args []Value) Value {
		return in.fmtInt(in.bigOf(args[0]))
	}
}

func (in *Interp) bigOf(v Value) *Term {
	p := v.(*Ptr)
	if p.P == nil {
		goPanic("nil *big.Int")
	}
	switch x := (*p.P).(type) {
	case BigVal:
		return x.T
	case Struct: // zero value
		return in.tb.Int(0)
	}
	unsup("big.Int in unexpected representation")
	return nil
}

func natBigSetString(in *Interp, fn *ssa.Function, args []Value) Value {
	p := args[0].(*Ptr)
	if p.P == nil {
		goPanic("nil *big.Int")
	}
	s := args[1].(Str)
	base := in.concretizeInt(args[2].(*Term), "big.Int base")
	if base != 10 {
		unsup("big.Int.SetString base %d", base)
	}
	tb := in.tb
	fail := func() Value { return Tuple{&Ptr{}, tb.False} }
	b := s.B
	neg := false
	if len(b) > 0 {
		var signs ByteSet
		signs.Add('+')
		signs.Add('-')
		if in.branch(tb.InSet(b[0], signs)) {
			if in.branch(tb.Eq(b[0], tb.Int('-'))) {
				neg = true
			}
			b = b[1:]
		}
	}
	if len(b) == 0 {
		return fail()
	}
	sum := tb.Int(0)
	ten := big.NewInt(10)
	for i, d := range b {
		if !in.branch(tb.InSet(d, classSets["d"])) {
			return fail()
		}
		w := new(big.Int).Exp(ten, big.NewInt(int64(len(b)-1-i)), nil)
		sum = tb.Add(sum, tb.Mul(tb.Sub(d, tb.Int('0')), tb.Big(w)))
	}
	if neg {
		sum = tb.Neg(sum)
	}
	in.checkWrite(p.Stamp, "big.Int.SetString")
	*p.P = BigVal{sum}
	return Tuple{p, tb.True}
}
