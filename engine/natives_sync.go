package main

// Synchronisation primitives, atomics, sort.Slice and the byte-search helpers of internal/bytealg
// and internal/stringslite (assembly or runtime-linked functions without a Go body).
//
// The engine executes one goroutine. Lock/Unlock only maintain a depth counter; atomic operations
// are plain loads and stores. A store into memory shared across API calls (C19 write monitor)
// that happens at depth > 0 or through an atomic operation is a *synchronised* write: it is
// recorded as a candidate and handed to the race detector, but it does not end the path and is
// not reported unless the native run races or fails an assertion.

import (
	"go/types"
	"strings"

	"golang.org/x/tools/go/ssa"
)

func init() {
	lock := func(in *Interp, fn *ssa.Function, args []Value) Value { in.syncDepth++; return nil }
	unlock := func(in *Interp, fn *ssa.Function, args []Value) Value {
		if in.syncDepth > 0 {
			in.syncDepth--
		}
		return nil
	}
	nativeTable["(*sync.Mutex).Lock"] = lock
	nativeTable["(*sync.Mutex).Unlock"] = unlock
	nativeTable["(*sync.Mutex).TryLock"] = func(in *Interp, fn *ssa.Function, args []Value) Value {
		in.syncDepth++
		return in.tb.True
	}
	nativeTable["(*sync.RWMutex).Lock"] = lock
	nativeTable["(*sync.RWMutex).Unlock"] = unlock
	nativeTable["(*sync.RWMutex).RLock"] = natNop
	nativeTable["(*sync.RWMutex).RUnlock"] = natNop
	nativeTable["(*sync.WaitGroup).Add"] = natNop
	nativeTable["(*sync.WaitGroup).Done"] = natNop

	for _, ty := range []string{"Int32", "Int64", "Uint32", "Uint64", "Uintptr", "Pointer"} {
		nativeTable["sync/atomic.Load"+ty] = natAtomicLoad
		nativeTable["sync/atomic.Store"+ty] = natAtomicStore
		nativeTable["sync/atomic.Swap"+ty] = natAtomicSwap
		nativeTable["sync/atomic.CompareAndSwap"+ty] = natAtomicCAS
		if ty != "Pointer" {
			nativeTable["sync/atomic.Add"+ty] = natAtomicAdd
		}
	}
	nativeTable["sort.Slice"] = natSortSlice
	nativeTable["sort.SliceStable"] = natSortSlice

	nativeTable["internal/bytealg.IndexByteString"] = natIndexByte
	nativeTable["internal/bytealg.IndexString"] = natIndex
	nativeTable["internal/bytealg.CountString"] = func(in *Interp, fn *ssa.Function, args []Value) Value {
		return natCount(in, fn, []Value{args[0], Str{[]*Term{args[1].(*Term)}}})
	}
	nativeTable["internal/stringslite.Index"] = natIndex
	nativeTable["internal/stringslite.IndexByte"] = natIndexByte
}

func (in *Interp) atomicPtr(v Value, what string) *Ptr {
	p, ok := v.(*Ptr)
	if !ok || p.P == nil {
		goPanic("nil pointer dereference (%s)", what)
	}
	return p
}

func (in *Interp) atomicStore(p *Ptr, v Value, what string) {
	in.syncDepth++
	in.checkWrite(p.Stamp, what)
	in.syncDepth--
	in.storeTo(p, v)
}

func natAtomicLoad(in *Interp, fn *ssa.Function, args []Value) Value {
	return *in.atomicPtr(args[0], "atomic load").P
}

func natAtomicStore(in *Interp, fn *ssa.Function, args []Value) Value {
	in.atomicStore(in.atomicPtr(args[0], "atomic store"), args[1], "atomic store")
	return nil
}

func natAtomicSwap(in *Interp, fn *ssa.Function, args []Value) Value {
	p := in.atomicPtr(args[0], "atomic swap")
	old := *p.P
	in.atomicStore(p, args[1], "atomic swap")
	return old
}

func natAtomicCAS(in *Interp, fn *ssa.Function, args []Value) Value {
	p := in.atomicPtr(args[0], "atomic compare-and-swap")
	cur, ok1 := (*p.P).(*Term)
	old, ok2 := args[1].(*Term)
	if !ok1 || !ok2 {
		unsup("atomic compare-and-swap on non-integer values")
	}
	if in.branch(in.tb.Eq(cur, old)) {
		in.atomicStore(p, args[2], "atomic compare-and-swap")
		return in.tb.True
	}
	return in.tb.False
}

func natAtomicAdd(in *Interp, fn *ssa.Function, args []Value) Value {
	p := in.atomicPtr(args[0], "atomic add")
	cur := (*p.P).(*Term)
	bits, signed := uint8(64), true
	if b, ok := fn.Signature.Results().At(0).Type().Underlying().(*types.Basic); ok {
		switch b.Kind() {
		case types.Int32:
			bits = 32
		case types.Uint32:
			bits, signed = 32, false
		case types.Uint64, types.Uintptr:
			signed = false
		}
	}
	nv := in.tb.Wrap(in.tb.Add(cur, args[1].(*Term)), bits, signed)
	in.atomicStore(p, nv, "atomic add")
	return nv
}

// sort.Slice / sort.SliceStable: a stable insertion sort driven by the caller's less function (one
// of the orders the real, unstable sort.Slice may produce).
func natSortSlice(in *Interp, fn *ssa.Function, args []Value) Value {
	ifc, ok := args[0].(Iface)
	if !ok {
		unsup("sort.Slice on %T", args[0])
	}
	sl, ok := ifc.V.(*Slice)
	if !ok {
		goPanic("sort.Slice called with a non-slice")
	}
	if sl.Nil || sl.Len < 2 {
		return nil
	}
	less := args[1]
	for i := 1; i < sl.Len; i++ {
		for j := i; j > 0; j-- {
			r := in.callValue(less, []Value{in.tb.Int(int64(j)), in.tb.Int(int64(j - 1))}).(*Term)
			if !in.branch(r) {
				break
			}
			in.checkWrite(sl.Stamp, "sort.Slice swap")
			sl.Arr[sl.Off+j], sl.Arr[sl.Off+j-1] = sl.Arr[sl.Off+j-1], sl.Arr[sl.Off+j]
		}
	}
	return nil
}

var _ = strings.Contains

// sync.Map: an association list kept beside the interpreter state (cleared at the start of every
// path, like all heap state). Keys are compared with the engine's map-key equality; a symbolic
// key forks. Stores are synchronised writes for the C19 monitor.
type syncMapEntry struct {
	k, v    Value
	deleted bool
}

func (in *Interp) syncMapOf(v Value) *[]syncMapEntry {
	p, ok := v.(*Ptr)
	if !ok || p.P == nil {
		goPanic("nil pointer dereference (*sync.Map)")
	}
	if in.syncMaps == nil {
		in.syncMaps = map[*Value]*[]syncMapEntry{}
	}
	l := in.syncMaps[p.P]
	if l == nil {
		l = &[]syncMapEntry{}
		in.syncMaps[p.P] = l
	}
	return l
}

func (in *Interp) syncMapFind(l *[]syncMapEntry, key Value) int {
	for i := len(*l) - 1; i >= 0; i-- {
		c := in.keyEq((*l)[i].k, key)
		if c.IsFalse() {
			continue
		}
		if in.branch(c) {
			if (*l)[i].deleted {
				return -1
			}
			return i
		}
	}
	return -1
}

func (in *Interp) syncMapWrite(m Value, what string) {
	p := m.(*Ptr)
	in.syncDepth++
	in.checkWrite(p.Stamp, what)
	in.syncDepth--
}

func init() {
	nativeTable["(*sync.Map).Load"] = func(in *Interp, fn *ssa.Function, args []Value) Value {
		l := in.syncMapOf(args[0])
		if i := in.syncMapFind(l, args[1]); i >= 0 {
			return Tuple{(*l)[i].v, in.tb.True}
		}
		return Tuple{Iface{}, in.tb.False}
	}
	nativeTable["(*sync.Map).Store"] = func(in *Interp, fn *ssa.Function, args []Value) Value {
		l := in.syncMapOf(args[0])
		in.syncMapWrite(args[0], "sync.Map.Store")
		*l = append(*l, syncMapEntry{k: args[1], v: args[2]})
		return nil
	}
	nativeTable["(*sync.Map).LoadOrStore"] = func(in *Interp, fn *ssa.Function, args []Value) Value {
		l := in.syncMapOf(args[0])
		if i := in.syncMapFind(l, args[1]); i >= 0 {
			return Tuple{(*l)[i].v, in.tb.True}
		}
		in.syncMapWrite(args[0], "sync.Map.LoadOrStore")
		*l = append(*l, syncMapEntry{k: args[1], v: args[2]})
		return Tuple{args[2], in.tb.False}
	}
	nativeTable["(*sync.Map).Delete"] = func(in *Interp, fn *ssa.Function, args []Value) Value {
		l := in.syncMapOf(args[0])
		if i := in.syncMapFind(l, args[1]); i >= 0 {
			in.syncMapWrite(args[0], "sync.Map.Delete")
			*l = append(*l, syncMapEntry{k: args[1], deleted: true})
		}
		return nil
	}
	nativeTable["(*sync.Map).Range"] = func(in *Interp, fn *ssa.Function, args []Value) Value {
		l := in.syncMapOf(args[0])
		for i := 0; i < len(*l); i++ {
			e := (*l)[i]
			if e.deleted || in.syncMapFind(l, e.k) != i {
				continue
			}
			if !in.branch(in.callValue(args[1], []Value{e.k, e.v}).(*Term)) {
				break
			}
		}
		return nil
	}
}

// sync.Pool: a LIFO free list per pool (cleared at the start of every path). Get returns the most
// recently Put object if there is one - the schedule in which a recycled object is handed out
// again at once, which is the one that shows an object being reused while still referenced - and
// calls New otherwise. Put is a synchronised write for the C19 monitor.
func (in *Interp) poolOf(v Value) *[]Value {
	p, ok := v.(*Ptr)
	if !ok || p.P == nil {
		goPanic("nil pointer dereference (*sync.Pool)")
	}
	if in.syncPools == nil {
		in.syncPools = map[*Value]*[]Value{}
	}
	l := in.syncPools[p.P]
	if l == nil {
		l = &[]Value{}
		in.syncPools[p.P] = l
	}
	return l
}

func init() {
	nativeTable["(*sync.Pool).Get"] = func(in *Interp, fn *ssa.Function, args []Value) Value {
		l := in.poolOf(args[0])
		if n := len(*l); n > 0 {
			x := (*l)[n-1]
			*l = (*l)[:n-1]
			return x
		}
		p := args[0].(*Ptr)
		st, ok := (*p.P).(Struct)
		if !ok {
			unsup("sync.Pool value is not a struct")
		}
		pt := fn.Signature.Recv().Type().(*types.Pointer).Elem().Underlying().(*types.Struct)
		for i := 0; i < pt.NumFields(); i++ {
			if pt.Field(i).Name() == "New" {
				if cl, ok := st[i].(*Closure); ok && (cl.Fn != nil || cl.Builtin != nil) {
					return in.callValue(cl, nil)
				}
				return Iface{}
			}
		}
		unsup("sync.Pool without a New field")
		return nil
	}
	nativeTable["(*sync.Pool).Put"] = func(in *Interp, fn *ssa.Function, args []Value) Value {
		l := in.poolOf(args[0])
		if x, ok := args[1].(Iface); ok && x.T == nil && x.V == nil {
			return nil
		}
		in.syncMapWrite(args[0], "sync.Pool.Put")
		*l = append(*l, args[1])
		return nil
	}
}
