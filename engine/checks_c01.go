package main

import "fmt"

const zzhPkg = modPath + "/pkg/zzh"

func init() {
	registerCheck(&CheckDef{
		ID:    "C01",
		Title: "Compare is a total preorder: result in {-1,0,1}, antisymmetric, reflexive, stable under re-parse (pairs); transitive incl. strictness (triples)",
		Pkgs:  []string{zzhPkg},
		Rule:  "one configuration = harness (C01Pair|C01Triple) x ecosystem x one grammar template per version; each solver query covers every content of the templates' symbolic bytes",
		Gen: func(tier string) []*Config {
			var out []*Config
			for _, eco := range ecosystems {
				ps, ts := "m", "s"
				if tier == "thorough" {
					ps, ts = "l", "m"
				}
				pairs := versionTemplates(eco, ps)
				if tier == "thorough" {
					pairs = thin(pairs, 110)
				} else {
					pairs = thin(pairs, 36)
				}
				for i, a := range pairs {
					for j, b := range pairs {
						if j < i {
							continue // the pair harness asserts both directions
						}
						out = append(out, &Config{ID: fmt.Sprintf("C01/pair/%s/%s|%s", eco, a, b), Pkg: zzhPkg, Func: "C01Pair", Args: []ArgSpec{ArgStr(eco), ArgTmpl(a), ArgTmpl(b)}})
					}
				}
				tr := versionTemplates(eco, ts)
				if tier == "thorough" && len(tr) > 24 {
					tr = thin(tr, 24)
				}
				for _, a := range tr {
					for _, b := range tr {
						for _, c := range tr {
							out = append(out, &Config{ID: fmt.Sprintf("C01/triple/%s/%s|%s|%s", eco, a, b, c), Pkg: zzhPkg, Func: "C01Triple", Args: []ArgSpec{ArgStr(eco), ArgTmpl(a), ArgTmpl(b), ArgTmpl(c)}})
						}
					}
				}
			}
			// every combination of the optional parts of a version (epoch, pre / post / dev phases,
			// revision, build) on one release shape, as triples: the order between the parts is where
			// the grammars are intricate, and the 's' set has each part alone
			for _, eco := range ecosystems {
				ph := phaseTemplates(eco, tier)
				for _, a := range ph {
					for _, b := range ph {
						for _, c := range ph {
							out = append(out, &Config{ID: fmt.Sprintf("C01/phases/%s/%s|%s|%s", eco, a, b, c), Pkg: zzhPkg, Func: "C01Triple", Args: []ArgSpec{ArgStr(eco), ArgTmpl(a), ArgTmpl(b), ArgTmpl(c)}})
						}
					}
				}
			}
			return out
		},
		Bounds: func(tier string) string {
			if tier == "thorough" {
				return "part-combination triples (phaseTemplates: every combination of the optional parts of the grammar on one release shape, 6-16 templates per ecosystem, cubed); pairs over the 'l' grammar templates, triples over (a thinned) 'm' set, per ecosystem; digit runs and letter runs as written in templates.go; ASCII only"
			}
			return "part-combination triples (phaseTemplates: every combination of the optional parts of the grammar on one release shape, 6-12 templates per ecosystem, cubed); pairs over the 'm' grammar templates, triples over the 's' set (8 per ecosystem); digit runs 1-2, letter runs 1-9 as written in templates.go; ASCII only"
		},
	})
}

// thin keeps n evenly spaced elements.
func thin(xs []string, n int) []string {
	if len(xs) <= n {
		return xs
	}
	out := make([]string, 0, n)
	for i := 0; i < n; i++ {
		out = append(out, xs[i*len(xs)/n])
	}
	return out
}

// phaseTemplates: one release shape with every combination of the grammar's optional parts.
func phaseTemplates(eco, tier string) []string {
	var t []string
	switch eco {
	case "pypi":
		t = expandAll("{d}.{d}(|{[abc]}{d})(|.post{d})(|.dev{d})")
		if tier == "thorough" {
			t = append(t, expandAll("{d}(|rc{d})(|.post{d})(|.dev{d})")...)
		}
	case "debian":
		t = expandAll("(|{d}:){d}.{d}(|~{l}{d}|+{l}{d})(|-{d})")
	case "rpm":
		t = expandAll("(|{d}:){d}.{d}(|~{l}|^{d})(|-{d})")
	case "alpine", "gentoo":
		t = expandAll("{d}.{d}(|{l})(|_alpha{d}|_p{d})(|-r{d})")
	case "alpm":
		t = expandAll("(|{d}:){d}.{d}(|{l})(|-{d})")
	case "maven":
		t = expandAll("{d}.{d}(|-{l}{l}|-{d}|.{l})(|-{d})")
	case "gem":
		t = expandAll("{d}.{d}(|.{d})(|.{l}|.{l}{d})(|-{d})")
	case "nuget":
		t = expandAll("{d}.{d}(|.{d}|.{d}.{d})(|-{l}|-{l}.{d})")
	case "npm", "semver", "cargo", "hex":
		t = expandAll("{d}.{d}.{d}(|-{l}|-{d}|-{l}.{d})(|+{d})")
	case "composer":
		t = expandAll("{d}.{d}(|.{d})(|-alpha{d}|-beta|-RC{d}|-patch{d}|pl{d})")
		// branch versions: named and numeric dev branches next to releases
		t = append(t, "dev-{l}{l}{l}{l}", "{d}.x-dev", "{d}.{d}.x-dev")
	case "golang":
		t = expandAll("v{d}.{d}.{d}(|-{l}|-{l}.{d})(|+incompatible)")
		// the three pseudo-version forms next to the ordinary pre-releases they must interleave with
		t = append(t, mustTemplates("golang")[:3]...)
		t = append(t, "v{d}.{d}.{d}-{l}{l}.{d}")
	case "conan":
		t = expandAll("{d}.{d}(|.{d})(|-{l}|-{l}.{d})(|+{d})")
	case "cran":
		t = expandAll("{d}.{d}(|.{d}|-{d})(|.{d})")
	}
	return t
}
