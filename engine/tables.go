package main

// Spec-side tables (DESIGN Appendix B): comparators and separators (B.1), arities (B.2),
// pre-/post-release markers (B.3).

type opsSpec struct {
	ops  []string
	ands []string
	ors  []string
}

var opsTable = map[string]opsSpec{
	"alpine":     {[]string{"=", "!=", "<", "<=", ">", ">="}, []string{" "}, nil},
	"alpm":       {[]string{"=", "<", "<=", ">", ">="}, []string{" "}, nil},
	"apache":     {[]string{"=", "<", "<=", ">", ">="}, []string{" "}, nil},
	"github":     {[]string{"=", "<", "<=", ">", ">="}, []string{" "}, nil},
	"mattermost": {[]string{"=", "<", "<=", ">", ">="}, []string{" "}, nil},
	"cargo":      {[]string{"=", "!=", "<", "<=", ">", ">="}, []string{","}, nil},
	"composer":   {[]string{"=", "==", "!=", "<>", "<", "<=", ">", ">="}, []string{" ", ","}, []string{"||"}},
	"conan":      {[]string{"=", "!=", "<", "<=", ">", ">="}, []string{" ", ","}, []string{"||"}},
	"cran":       {[]string{"=", "!=", "<", "<=", ">", ">="}, []string{","}, nil},
	"debian":     {[]string{"=", "!=", "<", "<=", ">", ">=", "<<", ">>"}, []string{","}, nil},
	"gem":        {[]string{"=", "!=", "<", "<=", ">", ">="}, []string{","}, nil},
	"gentoo":     {[]string{"=", "!=", "<", "<=", ">", ">="}, []string{" ", ","}, nil},
	"golang":     {[]string{"=", "!=", "<", "<=", ">", ">="}, []string{" "}, nil},
	"hex":        {[]string{"=", "<", "<=", ">", ">="}, []string{" ", " and "}, nil},
	"npm":        {[]string{"=", "<", "<=", ">", ">="}, []string{" "}, []string{"||", " || "}},
	"nuget":      {nil, nil, nil}, // comparators only inside a comma list: handled separately
	"pypi":       {[]string{"==", "!=", "<", "<=", ">", ">="}, []string{","}, nil},
	"rpm":        {[]string{"=", "!=", "<", "<=", ">", ">="}, []string{" ", ","}, nil},
	"semver":     {[]string{"=", "!=", "<", "<=", ">", ">="}, []string{" ", ","}, nil},
	"maven":      {nil, nil, nil},
}

// nuget comparators are claimed only inside its comma-separated list form.
var nugetListOps = []string{"=", "!=", "<", "<=", ">", ">="}

var arities = map[string][]int{
	"semver": {3}, "npm": {3}, "cargo": {3}, "golang": {3}, "apache": {3}, "github": {3}, "mattermost": {3},
	"hex": {2, 3}, "nuget": {1, 2, 3, 4}, "composer": {1, 2, 3, 4}, "cran": {2, 3, 4, 5},
	"alpine": {1, 2, 3, 4, 5}, "alpm": {1, 2, 3, 4, 5}, "conan": {1, 2, 3, 4, 5}, "debian": {1, 2, 3, 4, 5}, "gem": {1, 2, 3, 4, 5},
	"gentoo": {1, 2, 3, 4, 5}, "maven": {1, 2, 3, 4, 5}, "pypi": {1, 2, 3, 4, 5}, "rpm": {1, 2, 3, 4, 5},
}

var versionPrefix = map[string]string{"golang": "v"}

type markerSpec struct {
	older []string
	newer []string
}

var markers = map[string]markerSpec{
	"semver":     {[]string{"-alpha.{d}", "-rc{d}", "-SNAPSHOT", "-0", "-{a}{a}", "-{n}.{n}"}, nil},
	"npm":        {[]string{"-alpha.{d}", "-rc{d}", "-SNAPSHOT", "-0", "-{a}{a}", "-{n}.{n}"}, nil},
	"cargo":      {[]string{"-alpha.{d}", "-rc{d}", "-SNAPSHOT", "-0", "-{a}{a}", "-{n}.{n}"}, nil},
	"hex":        {[]string{"-alpha.{d}", "-rc{d}", "-SNAPSHOT", "-0", "-{a}{a}", "-{n}.{n}"}, nil},
	"golang":     {[]string{"-alpha.{d}", "-rc{d}", "-SNAPSHOT", "-0", "-{a}{a}", "-{n}.{n}"}, nil},
	"nuget":      {[]string{"-alpha.{d}", "-rc{d}", "-SNAPSHOT", "-0", "-{a}{a}", "-{n}.{n}"}, nil},
	"conan":      {[]string{"-alpha.{d}", "-rc{d}", "-0", "-{l}{l}", "-{[0-9a-z]}.{[0-9a-z]}"}, nil},
	"pypi":       {[]string{"a{d}", "b{d}", "rc{d}", "c{d}", "alpha{d}", "beta{d}", ".a{d}", ".dev{d}", ".rc{d}", "dev{d}"}, []string{".post{d}", "post{d}", ".rev{d}", ".r{d}"}},
	"debian":     {[]string{"~rc{d}", "~{d}", "~", "~{l}{l}"}, []string{"-{D}", "+b{d}", "+dfsg", "+{l}{d}", ".{d}"}},
	"rpm":        {[]string{"~rc{d}", "~{d}", "~{l}{l}"}, []string{"-{D}", "^git{d}", "^{d}", ".{d}"}},
	"maven":      {[]string{"-alpha-{d}", "-beta{d}", "-rc{d}", "-cr{d}", "-m{d}", "-SNAPSHOT", "-{[aA]}lpha", "-RC{d}", "-milestone-{d}"}, []string{"-sp", "-sp{D}", "-{D}", "-SP-{D}"}},
	"gem":        {[]string{".rc{d}", "-rc{d}", ".pre", ".beta{d}", ".a", "-{l}{l}", ".{l}"}, nil},
	"alpine":     {[]string{"_alpha", "_beta{d}", "_pre", "_rc{d}", "_alpha{d}"}, []string{"_p{d}", "_git", "_cvs", "_svn", "_hg", "-r{D}", "_p"}},
	"gentoo":     {[]string{"_alpha", "_beta{d}", "_pre", "_rc{d}", "_alpha{d}"}, []string{"_p{d}", "-r{D}", "_p"}},
	"alpm":       {[]string{"rc{d}", "beta", "alpha", "{l}{l}"}, nil},
	"apache":     {[]string{"-RC{d}", "-beta", "-alpha", "-M{d}", "-SNAPSHOT", "-dev", "-rc{d}", "-beta{d}"}, nil},
	"github":     {[]string{"-alpha", "-beta.{d}", "-rc.{d}", "-rc{d}", "-beta"}, nil},
	"mattermost": {[]string{"-rc{d}", "-rc"}, nil},
	"composer":   {[]string{"-alpha", "-beta{d}", "-RC{d}", "a{d}", "b{d}", "rc{d}", "-dev", "-alpha.{d}"}, []string{"-patch{D}", "pl{D}"}},
	"cran":       {nil, []string{"-{D}", ".{D}"}},
}

// markerBases: plain numeric bases to which markers are appended (arity the ecosystem requires).
func markerBases(eco string) []string {
	pre := versionPrefix[eco]
	switch eco {
	case "semver", "npm", "cargo", "golang", "apache", "github", "mattermost", "hex":
		return []string{pre + "{d}.{d}.{d}", pre + "{D}{d}.{d}.{d}"}
	case "cran":
		return []string{"{d}.{d}", "{d}.{d}.{d}"}
	default:
		return []string{"{d}.{d}", "{d}.{d}.{d}", "{d}", "{D}{d}.{d}"}
	}
}
