package main

import (
	"fmt"
	"strings"
)

const cmdPkg = modPath + "/cmd"

// discriminating argument templates for the CLI (separate ecosystems pairwise)
var cliArgTemplates = []string{"{d}.{d}.{d}", "{d}.{d}~rc{d}", "{d}.{d}.{d}-{l}{l}{l}{l}{l}", "{d}:{d}.{d}", "v{d}.{d}.{d}", "{d}.{d}", "", " {d}.{d}.{d}", "-{d}", "{d}.{d}.{d} {d}", "\"{d}.{d}\""}

func init() {
	registerCheck(&CheckDef{
		ID:    "C07",
		Title: "sorting valid versions (slices.SortFunc idiom and the CLI sort command) returns a permutation of the inputs in non-decreasing order, with the same sequence of equivalence classes for every input order; an invalid input is reported by name without a partial result",
		Pkgs:  []string{zzhPkg, cmdPkg},
		Rule:  "C07Sort3: ecosystem x 3 version templates x input permutation (real slices.SortFunc source executed symbolically); C07CliSort3 / C07CliSortBad through cmd.run",
		Gen: func(tier string) []*Config {
			var out []*Config
			for _, eco := range ecosystems {
				ts := versionTemplates(eco, "s")
				n := 4
				if tier == "thorough" {
					n = 8
				}
				ts = thin(ts, n)
				if eco == "alpm" {
					// the property's exclusion: do not mix versions with and without pkgrel
					var f []string
					for _, t := range ts {
						if !strings.Contains(t, "-") {
							f = append(f, t)
						}
					}
					ts = f
				}
				for _, a := range ts {
					for _, b := range ts {
						for _, c := range ts {
							nperm := 1
							if tier == "thorough" {
								nperm = 5
							}
							for p := 0; p < nperm; p++ {
								pp := p
								if tier != "thorough" {
									pp = (len(a) + len(b)*3 + len(c)*7) % 5
								}
								out = append(out, &Config{ID: fmt.Sprintf("C07/sort3/%s/%s|%s|%s/p%d", eco, a, b, c, pp), Pkg: zzhPkg, Func: "C07Sort3", Args: []ArgSpec{ArgStr(eco), ArgTmpl(a), ArgTmpl(b), ArgTmpl(c), ArgInt(int64(pp))}})
							}
						}
					}
				}
				// three versions over the combinations of the grammar's optional parts (golang: the
				// pseudo-version forms and the ordinary pre-releases they interleave with)
				ex := thin(phaseTemplates(eco, "quick"), 3)
				if eco == "golang" {
					ex = append(append([]string{}, mustTemplates("golang")[:3]...), "v{d}.{d}.{d}-{l}{l}.{d}")
				}
				if eco == "alpm" {
					ex = nil // mixing versions with and without pkgrel is outside the property
				}
				for _, a := range ex {
					for _, b := range ex {
						for _, c := range ex {
							pp := (len(a) + len(b)*3 + len(c)*7) % 5
							out = append(out, &Config{ID: fmt.Sprintf("C07/sort3/%s/parts/%s|%s|%s/p%d", eco, a, b, c, pp), Pkg: zzhPkg, Func: "C07Sort3", Args: []ArgSpec{ArgStr(eco), ArgTmpl(a), ArgTmpl(b), ArgTmpl(c), ArgInt(int64(pp))}})
						}
					}
				}
				t2 := thin(ts, 2)
				for _, a := range t2 {
					for _, b := range t2 {
						out = append(out, &Config{ID: fmt.Sprintf("C07/cli/%s/%s|%s", eco, a, b), Pkg: cmdPkg, Func: "C07CliSort3", Args: []ArgSpec{ArgStr(eco), ArgTmpl(a), ArgTmpl(b), ArgTmpl(a)}})
					}
				}
				// one argument is one version, whatever it contains: a list separator inside an argument
				// (accepted by alpine, composer and maven, whose versions are free-form enough; the other parsers reject it) stays inside it in the output
				if eco == "alpine" || eco == "composer" || eco == "maven" {
					out = append(out, &Config{ID: fmt.Sprintf("C07/cli/%s/separator-inside/%s", eco, t2[0]), Pkg: cmdPkg, Func: "C07CliSort3", Args: []ArgSpec{ArgStr(eco), ArgTmpl(t2[0] + "{[,;| ]}{d}"), ArgTmpl(t2[0]), ArgTmpl(t2[0])}})
				}
				for _, bad := range []string{"{[a-z!?]}{[!?#]}", "{[!?#]}{[!?#]}{[!?#]}"} {
					out = append(out, &Config{ID: fmt.Sprintf("C07/clibad/%s/%s", eco, bad), Pkg: cmdPkg, Func: "C07CliSortBad", Args: []ArgSpec{ArgStr(eco), ArgTmpl(t2[0]), ArgTmpl(bad), ArgTmpl(t2[0])}})
				}
			}
			out = append(out, abstractSortConfigs(tier)...)
			return out
		},
		Bounds: func(tier string) string {
			return "real ecosystems: lists of exactly 3 versions from 4 (quick) / 8 (thorough) grammar templates per ecosystem incl. textually different equal versions, and from 3 part-combination templates (golang: the three pseudo-version forms and an ordinary dotted pre-release); one (quick) / all 5 (thorough) non-identity input permutations; through the CLI also an argument with a list separator (comma, semicolon, bar, space) inside it; ecosystems with an open C01 finding are excluded while that finding is open. Longer lists: the CLI's generic sort function and the real slices.SortFunc over an abstract ecosystem (version = key + text, Compare by key): every weak ordering of 1..5 (quick) / 1..7 (thorough) arguments incl. repeated texts, every 0/1 key vector of length 12 and 13 (quick; 13 takes the pdqsort path) / 12..16 (thorough), every 0/1/2 key vector up to length 10 (thorough), and lists of 33 (64) arguments with 10 (8) free 0/1/2 keys among fixed ones (thorough); that real ecosystems behave like the abstract one rests on C01 (total preorder) and C18 (String returns the text)"
		},
	})

	registerCheck(&CheckDef{
		ID:    "C15",
		Title: "the CLI prints exactly the library's result for compare / contains / sort / vers contains for every ecosystem name, exits 0 with one line on success, and turns wrong arity, unknown names/commands and parse failures into a diagnostic with exit status 1",
		Pkgs:  []string{cmdPkg},
		Rule:  "differential: cmd.run executed symbolically next to the library call chosen by the spec-side name table; name x command x argument templates",
		Gen: func(tier string) []*Config {
			var out []*Config
			args := cliArgTemplates
			if tier != "thorough" {
				args = args[:7]
			}
			for _, eco := range ecosystems {
				for _, a := range args {
					for _, b := range args {
						out = append(out, &Config{ID: fmt.Sprintf("C15/compare/%s/%s|%s", eco, a, b), Pkg: cmdPkg, Func: "C15Compare", Args: []ArgSpec{ArgStr(eco), ArgTmpl(a), ArgTmpl(b)}})
					}
				}
				rs := []string{">={d}.{d}.{d}", "<{d}.{d}", "{d}.{d}.{d}", "[{d}.{d},{d}.{d}]", "^{d}.{d}.{d}", "", ">=v{d}.{d}.{d}"}
				for _, r := range rs {
					for _, v := range args[:5] {
						out = append(out, &Config{ID: fmt.Sprintf("C15/contains/%s/%s|%s", eco, r, v), Pkg: cmdPkg, Func: "C15Contains", Args: []ArgSpec{ArgStr(eco), ArgTmpl(r), ArgTmpl(v)}})
					}
				}
				ts := thin(versionTemplates(eco, "s"), 2)
				for _, a := range append(ts, args[1], "") {
					for _, b := range ts {
						out = append(out, &Config{ID: fmt.Sprintf("C15/sort/%s/%s|%s", eco, a, b), Pkg: cmdPkg, Func: "C15Sort3", Args: []ArgSpec{ArgStr(eco), ArgTmpl(a), ArgTmpl(b), ArgTmpl(ts[0])}})
					}
				}
				// texts that need escaping when quoted: white space around a version (kept by the
				// ecosystems that store the original text) and a quote / backslash inside it
				// ... and a list separator inside one argument (one argument is one version, whatever it contains)
				for _, a := range []string{"{w}" + ts[0], ts[0] + "{w}", ts[0] + "-{[a\\x22\\x5c]}{[b\\x22\\x5c]}", ts[0] + "{[,;| ]}{d}"} {
					out = append(out, &Config{ID: fmt.Sprintf("C15/sort/%s/esc/%s", eco, a), Pkg: cmdPkg, Func: "C15Sort3", Args: []ArgSpec{ArgStr(eco), ArgTmpl(ts[0]), ArgTmpl(a), ArgTmpl(ts[len(ts)-1])}})
				}
			}
			for _, scheme := range versSchemes {
				v := versVersionTemplates(scheme, "quick")[0]
				// well-formed, '*', missing comparator, missing prefix, and white space (space, tab, CR, LF)
				// before / after the range and the version: the CLI must hand its arguments to the library as they are
				for _, r := range []string{"vers:" + scheme + "/>=" + v + "|<" + v, "vers:" + scheme + "/*", "vers:" + scheme + "/" + v, scheme + "/>=" + v,
					"{w}vers:" + scheme + "/>=" + v, "vers:" + scheme + "/>=" + v + "{w}"} {
					for _, p := range []string{v, "{l}{l}", "{w}" + v, v + "{w}"} {
						out = append(out, &Config{ID: fmt.Sprintf("C15/vers/%s/%s|%s", scheme, r, p), Pkg: cmdPkg, Func: "C15VersContains", Args: []ArgSpec{ArgTmpl(r), ArgTmpl(p)}})
					}
				}
			}
			// argument vectors: 0-5 arguments; names and commands symbolic
			names := []string{"npm", "vers", "{l}{l}{l}", "{l}{l}{l}{l}{l}", "{l}{l}{l}{l}{l}{l}", "{A}{A}", ""}
			cmds := []string{"compare", "contains", "sort", "{l}{l}{l}{l}", "{l}{l}{l}{l}{l}{l}{l}", "{l}{l}{l}{l}{l}{l}{l}{l}", ""}
			for n := 0; n <= 5; n++ {
				for _, nm := range names {
					for _, cm := range cmds {
						if n == 0 && (nm != names[0] || cm != cmds[0]) {
							continue
						}
						if n == 1 && cm != cmds[0] {
							continue
						}
						out = append(out, &Config{ID: fmt.Sprintf("C15/argv/%d/%s/%s", n, nm, cm), Pkg: cmdPkg, Func: "C15Argv", NoPanic: true,
							Args: []ArgSpec{ArgInt(int64(n)), ArgTmpl(nm), ArgTmpl(cm), ArgTmpl("{d}.{d}.{d}"), ArgTmpl("{d}.{d}"), ArgTmpl("{d}.{d}")}})
					}
				}
			}
			// a first operand of one or two arbitrary printable bytes ("--", "-", "-h", "=="): no operand is
			// an option, the arity rules hold whatever the operands are
			for _, nm := range []string{"npm", "semver", "vers"} {
				for _, cm := range []string{"compare", "contains", "sort"} {
					for n := 3; n <= 5; n++ {
						for _, a2 := range []string{"{P}", "{P}{P}"} {
							out = append(out, &Config{ID: fmt.Sprintf("C15/argv/%d/%s/%s/operand/%s", n, nm, cm, a2), Pkg: cmdPkg, Func: "C15Argv", NoPanic: true,
								Args: []ArgSpec{ArgInt(int64(n)), ArgStr(nm), ArgStr(cm), ArgTmpl(a2), ArgTmpl("{d}.{d}.{d}"), ArgTmpl("{d}.{d}.{d}")}})
						}
					}
				}
			}
			return out
		},
		Bounds: func(tier string) string {
			return "all 20 names + vers; compare: 7x7 (quick) / 11x11 argument templates incl. empty string, leading space/dash, embedded space and quotes; contains: 7 range templates x 5 version templates; sort: 3 arguments, one of them also with surrounding white space (space, tab, CR, LF) or a quote / backslash in a qualifier or a list separator (comma, semicolon, bar, space) inside it; vers: 4 range shapes x 2 probes per scheme; argument vectors of 0-5 arguments with symbolic names (2-6 letters, 2 raw bytes) and commands (4-8 letters), and with a first operand of 1-2 arbitrary printable bytes"
		},
		Assume: []string{"name -> ecosystem table is spec-side (zzh dispatchers generated from the list of 20 names)"},
	})
}

// abstractSortConfigs: C07AbstractSort(ids, keys, fix) - see harness/cmd/zz_verif_cmd.go.
func abstractSortConfigs(tier string) []*Config {
	var out []*Config
	letters := "abcdefghijklmnopqrstuvwxyzABCDEFGHIJKLMNOPQRSTUVWXYZ0123456789!#"
	add := func(ids, keys string, fix int64) {
		out = append(out, &Config{ID: fmt.Sprintf("C07/abstract/%s/%s/fix%d", ids, keys, fix), Pkg: cmdPkg, Func: "C07AbstractSort", Args: []ArgSpec{ArgStr(ids), ArgTmpl(keys), ArgInt(fix)}})
	}
	ids := func(n int) string { return letters[:n] }
	class := func(hi int) string { return fmt.Sprintf("{[0-%d]}", hi) }
	maxSym := 5
	if tier == "thorough" {
		maxSym = 7
	}
	// every weak ordering of n distinct texts (comparisons fork on symbolic keys)
	for n := 1; n <= maxSym; n++ {
		if n <= 5 {
			add(ids(n), strings.Repeat(class(n-1), n), 0)
			continue
		}
		// split on the first key to spread the work
		for k := 0; k < n; k++ {
			add(ids(n), fmt.Sprint(k)+strings.Repeat(class(n-1), n-1), 0)
		}
	}
	// the same text given twice or three times
	for _, d := range []string{"aa", "aab", "aba", "abab", "abcab", "aaab", "abcabc"} {
		nk := 0
		for _, c := range d {
			if int(c-'a')+1 > nk {
				nk = int(c-'a') + 1
			}
		}
		add(d, strings.Repeat(class(nk-1), nk), 0)
	}
	// 0/1 key vectors, keys made constant per path before sorting; 3 (quick) / 4 (thorough) leading keys
	// enumerated in the configuration id to spread the work
	lens := []int{12, 13}
	pre := 3
	if tier == "thorough" {
		lens = []int{12, 13, 14, 15, 16}
		pre = 4
	}
	for _, n := range lens {
		for m := 0; m < 1<<pre; m++ {
			p := fmt.Sprintf("%0*b", pre, m)
			add(ids(n), p+strings.Repeat(class(1), n-pre), 1)
		}
	}
	if tier == "thorough" {
		for _, n := range []int{8, 9, 10} {
			for m := 0; m < 9; m++ {
				add(ids(n), fmt.Sprintf("%d%d", m/3, m%3)+strings.Repeat(class(2), n-2), 1)
			}
		}
		// long lists: 10 (33 elements) / 8 (64 elements) free keys among fixed ones; with 10 free keys
		// a list of 64 needs most of the 900 s budget on an idle machine and exceeds it under load
		for _, n := range []int{33, 64} {
			nfree := 10
			if n == 64 {
				nfree = 8
			}
			for variant := 0; variant < 3; variant++ {
				var sb strings.Builder
				free := 0
				for p := 0; p < n; p++ {
					if free < nfree && (p*5+variant*7)%(n/10) == 0 {
						sb.WriteString(class(2))
						free++
					} else {
						sb.WriteString(fmt.Sprint((p*7 + 3 + variant) % 3))
					}
				}
				add(letters[:n], sb.String(), 1)
			}
		}
	}
	return out
}
