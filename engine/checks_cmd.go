package main

import (
	"fmt"
	"strings"
)

const cmdPkg = modPath + "/cmd"

// discriminating argument templates for the CLI (separate ecosystems pairwise)
var cliArgTemplates = []string{"{d}.{d}.{d}", "{d}.{d}~rc{d}", "{d}.{d}.{d}-{l}{l}{l}{l}{l}", "{d}:{d}.{d}", "v{d}.{d}.{d}", "{d}.{d}", "", " {d}.{d}.{d}", "-{d}", "{d}.{d}.{d} {d}", "\"{d}.{d}\""}

func init() {
	registerCheck(&CheckDef{
		ID:    "C07",
		Title: "sorting valid versions (slices.SortFunc idiom and the CLI sort command) returns a permutation of the inputs in non-decreasing order, with the same sequence of equivalence classes for every input order; an invalid input is reported by name without a partial result",
		Pkgs:  []string{zzhPkg, cmdPkg},
		Rule:  "C07Sort3: ecosystem x 3 version templates x input permutation (real slices.SortFunc source executed symbolically); C07CliSort3 / C07CliSortBad through cmd.run",
		Gen: func(tier string) []*Config {
			var out []*Config
			for _, eco := range ecosystems {
				ts := versionTemplates(eco, "s")
				n := 4
				if tier == "thorough" {
					n = 8
				}
				ts = thin(ts, n)
				if eco == "alpm" {
					// the property's exclusion: do not mix versions with and without pkgrel
					var f []string
					for _, t := range ts {
						if !strings.Contains(t, "-") {
							f = append(f, t)
						}
					}
					ts = f
				}
				for _, a := range ts {
					for _, b := range ts {
						for _, c := range ts {
							nperm := 1
							if tier == "thorough" {
								nperm = 5
							}
							for p := 0; p < nperm; p++ {
								pp := p
								if tier != "thorough" {
									pp = (len(a) + len(b)*3 + len(c)*7) % 5
								}
								out = append(out, &Config{ID: fmt.Sprintf("C07/sort3/%s/%s|%s|%s/p%d", eco, a, b, c, pp), Pkg: zzhPkg, Func: "C07Sort3", Args: []ArgSpec{ArgStr(eco), ArgTmpl(a), ArgTmpl(b), ArgTmpl(c), ArgInt(int64(pp))}})
							}
						}
					}
				}
				t2 := thin(ts, 2)
				for _, a := range t2 {
					for _, b := range t2 {
						out = append(out, &Config{ID: fmt.Sprintf("C07/cli/%s/%s|%s", eco, a, b), Pkg: cmdPkg, Func: "C07CliSort3", Args: []ArgSpec{ArgStr(eco), ArgTmpl(a), ArgTmpl(b), ArgTmpl(a)}})
					}
				}
				for _, bad := range []string{"{[a-z!?]}{[!?#]}", "{[!?#]}{[!?#]}{[!?#]}"} {
					out = append(out, &Config{ID: fmt.Sprintf("C07/clibad/%s/%s", eco, bad), Pkg: cmdPkg, Func: "C07CliSortBad", Args: []ArgSpec{ArgStr(eco), ArgTmpl(t2[0]), ArgTmpl(bad), ArgTmpl(t2[0])}})
				}
			}
			return out
		},
		Bounds: func(tier string) string {
			return "lists of exactly 3 versions from 4 (quick) / 8 (thorough) grammar templates per ecosystem incl. textually different equal versions; one (quick) / all 5 (thorough) non-identity input permutations; lists longer than 3 (and the pdqsort path for n >= 12) are outside the claim; ecosystems with an open C01 finding are excluded while that finding is open"
		},
	})

	registerCheck(&CheckDef{
		ID:    "C15",
		Title: "the CLI prints exactly the library's result for compare / contains / sort / vers contains for every ecosystem name, exits 0 with one line on success, and turns wrong arity, unknown names/commands and parse failures into a diagnostic with exit status 1",
		Pkgs:  []string{cmdPkg},
		Rule:  "differential: cmd.run executed symbolically next to the library call chosen by the spec-side name table; name x command x argument templates",
		Gen: func(tier string) []*Config {
			var out []*Config
			args := cliArgTemplates
			if tier != "thorough" {
				args = args[:7]
			}
			for _, eco := range ecosystems {
				for _, a := range args {
					for _, b := range args {
						out = append(out, &Config{ID: fmt.Sprintf("C15/compare/%s/%s|%s", eco, a, b), Pkg: cmdPkg, Func: "C15Compare", Args: []ArgSpec{ArgStr(eco), ArgTmpl(a), ArgTmpl(b)}})
					}
				}
				rs := []string{">={d}.{d}.{d}", "<{d}.{d}", "{d}.{d}.{d}", "[{d}.{d},{d}.{d}]", "^{d}.{d}.{d}", "", ">=v{d}.{d}.{d}"}
				for _, r := range rs {
					for _, v := range args[:5] {
						out = append(out, &Config{ID: fmt.Sprintf("C15/contains/%s/%s|%s", eco, r, v), Pkg: cmdPkg, Func: "C15Contains", Args: []ArgSpec{ArgStr(eco), ArgTmpl(r), ArgTmpl(v)}})
					}
				}
				ts := thin(versionTemplates(eco, "s"), 2)
				for _, a := range append(ts, args[1], "") {
					for _, b := range ts {
						out = append(out, &Config{ID: fmt.Sprintf("C15/sort/%s/%s|%s", eco, a, b), Pkg: cmdPkg, Func: "C15Sort3", Args: []ArgSpec{ArgStr(eco), ArgTmpl(a), ArgTmpl(b), ArgTmpl(ts[0])}})
					}
				}
			}
			for _, scheme := range versSchemes {
				v := versVersionTemplates(scheme, "quick")[0]
				for _, r := range []string{"vers:" + scheme + "/>=" + v + "|<" + v, "vers:" + scheme + "/*", "vers:" + scheme + "/" + v, scheme + "/>=" + v} {
					for _, p := range []string{v, "{l}{l}"} {
						out = append(out, &Config{ID: fmt.Sprintf("C15/vers/%s/%s|%s", scheme, r, p), Pkg: cmdPkg, Func: "C15VersContains", Args: []ArgSpec{ArgTmpl(r), ArgTmpl(p)}})
					}
				}
			}
			// argument vectors: 0-5 arguments; names and commands symbolic
			names := []string{"npm", "vers", "{l}{l}{l}", "{l}{l}{l}{l}{l}", "{l}{l}{l}{l}{l}{l}", "{A}{A}", ""}
			cmds := []string{"compare", "contains", "sort", "{l}{l}{l}{l}", "{l}{l}{l}{l}{l}{l}{l}", "{l}{l}{l}{l}{l}{l}{l}{l}", ""}
			for n := 0; n <= 5; n++ {
				for _, nm := range names {
					for _, cm := range cmds {
						if n == 0 && (nm != names[0] || cm != cmds[0]) {
							continue
						}
						if n == 1 && cm != cmds[0] {
							continue
						}
						out = append(out, &Config{ID: fmt.Sprintf("C15/argv/%d/%s/%s", n, nm, cm), Pkg: cmdPkg, Func: "C15Argv", NoPanic: true,
							Args: []ArgSpec{ArgInt(int64(n)), ArgTmpl(nm), ArgTmpl(cm), ArgTmpl("{d}.{d}.{d}"), ArgTmpl("{d}.{d}"), ArgTmpl("{d}.{d}")}})
					}
				}
			}
			return out
		},
		Bounds: func(tier string) string {
			return "all 20 names + vers; compare: 7x7 (quick) / 11x11 argument templates incl. empty string, leading space/dash, embedded space and quotes; contains: 7 range templates x 5 version templates; sort: 3 arguments; vers: 4 range shapes x 2 probes per scheme; argument vectors of 0-5 arguments with symbolic names (2-6 letters, 2 raw bytes) and commands (4-8 letters)"
		},
		Assume: []string{"name -> ecosystem table is spec-side (zzh dispatchers generated from the list of 20 names)"},
	})
}
