package main

import (
	"fmt"
	"strings"
)

type refCheck struct {
	id, eco, fn, title, oracle string
	extra                       func(tier string) []string // additional (raw-ish) templates
}

func rep(class string, n int) string { return strings.Repeat("{"+class+"}", n) }

func init() {
	refs := []refCheck{
		{"C09", "pypi", "C09Pair", "pypi Compare agrees with the PEP 440 total order (packaging.version._cmpkey)", "Go transliteration of packaging.version._cmpkey, validated at dev time against packaging 26.3 on 5000 generated pairs (0 mismatches)",
			func(tier string) []string {
				return []string{"{d}.{d}.dev{d}", "{d}.{d}a{d}.dev{d}", "{d}.{d}.post{d}.dev{d}", "{d}.{d}+{n}.{n}", "{d}.{d}+{d}", "{d}.{d}.0", "{d}.0.0", "{d}!{d}.{d}rc{d}", "{d}.{d}a{d}.post{d}", "{d}.{d}{d}", "{d}.{d}c{d}", "{d}.{d}+{l}{l}-{d}",
					// zero-led numbers of three digits (decimal, never octal) in every numeric position
					"{d}.0{d}{d}", "{d}.{d}{d}{d}", "{d}.{d}a0{d}{d}", "{d}.{d}.post0{d}{d}", "{d}.{d}.dev0{d}{d}", "0{d}{d}!{d}.{d}", "{d}{d}!{d}.{d}"}
			}},
		{"C10", "debian", "C10Pair", "debian Compare gives the same sign as dpkg --compare-versions", "Go transliteration of dpkg's order()/verrevcmp()/parseversion, validated at dev time against /usr/bin/dpkg on 4000 random valid pairs (0 mismatches)",
			func(tier string) []string {
				cls := "[0-9A-Za-z.+~]"
				out := []string{"{d}" + rep(cls, 1), "{d}" + rep(cls, 2), "{d}" + rep(cls, 3), "{d}:{d}" + rep(cls, 2), "{d}" + rep(cls, 1) + "-" + rep(cls, 1), "{d}" + rep("[0-9a-z.+~\\-]", 2) + "-{d}", "{d}.{d}-{d}", "{d}.{d}-0", "{d}.{d}",
					"{d}" + rep("d", 20), rep("d", 20), "0" + rep("d", 3), "{d}~~{d}", "{d}.{d}~", "{d}{l}", "{d}{l}0",
					// epochs: two digits, leading zeros, and absent against explicit zero
					"{d}{d}:{d}.{d}", "0{d}{d}:{d}.{d}", "0:{d}.{d}"}
				if tier == "thorough" {
					out = append(out, "{d}"+rep(cls, 4), "{d}"+rep(cls, 2)+"-"+rep(cls, 2), "{d}"+rep("d", 21), "{d}{d}:{d}"+rep(cls, 2), "00{d}:{d}", "{d}{d}{d}{d}{d}{d}{d}{d}{d}:{d}")
				}
				return out
			}},
		{"C11", "rpm", "C11Pair", "rpm Compare gives the same sign as rpmvercmp on [epoch:]version[-release]", "Go transliteration of rpmio/rpmvercmp.c, validated at dev time on 91 rows of rpm's tests/rpmvercmp.at (0 mismatches); no rpm binary exists in this image",
			func(tier string) []string {
				cls := "[0-9A-Za-z._+~^]"
				out := []string{"{d}" + rep(cls, 1), "{d}" + rep(cls, 2), "{d}" + rep(cls, 3), "{d}:{d}" + rep(cls, 2), "{d}" + rep(cls, 1) + "-" + rep(cls, 1), "{d}.{d}-{d}", "{d}.{d}", "{l}{d}", "{d}.{d}{l}", "{d}.{d}.{d}",
					"{d}" + rep("d", 20), rep("d", 20), "0" + rep("d", 3), "{d}.{d}^{l}{d}", "{d}.{d}~{l}{d}", "{d}..{d}",
					// epochs with two digits and with leading zeros (decimal, never octal)
					"{d}{d}:{d}.{d}", "0{d}{d}:{d}.{d}", "0:{d}.{d}-{d}"}
				if tier == "thorough" {
					out = append(out, "{d}"+rep(cls, 4), "{d}"+rep(cls, 2)+"-"+rep(cls, 2), "{d}"+rep("d", 21))
				}
				return out
			}},
		{"C12", "maven", "C12Pair", "maven Compare gives the same sign as Maven 3.8 ComparableVersion on conventionally shaped versions", "Go transliteration of ComparableVersion (parseVersion, aliases, qualifier ranks, normalize, compareTo), validated at dev time against maven-artifact 3.8.7 on 1500 generated conventional pairs (0 mismatches)",
			func(tier string) []string {
				return []string{"{d}", "{d}.{d}", "{d}.{d}.{d}", "{d}.{d}.{d}.{d}", "{d}.0", "{d}.0.0", "{d}-{d}", "{d}.{d}-{d}", "{d}-{a}{a}", "{d}-{a}{a}{a}", "{d}.{a}{a}{a}{a}{a}", "{d}-{a}{a}{a}{a}", "{d}-{a}{a}{a}{a}{a}", "{d}-{a}{a}{a}{a}{a}{a}{a}{a}", "{d}-{a}{a}{a}{a}{a}{a}{a}{a}{a}",
					"{d}-{a}{a}{d}", "{d}-{a}{a}-{d}", "{d}-{a}{a}.{d}", "{d}.{d}-{a}{d}", "{d}-{a}{a}{a}{a}{d}", "{d}-{a}{a}{a}{a}{a}-{d}", "{d}.{d}.{a}{a}{a}{a}{a}{a}{a}", "0{d}.{d}", "{d}-{a}{a}{a}{d}", "{d}.0{d}{d}", "{d}.{d}{d}{d}", "{d}-{a}{a}0{d}{d}"}
			}},
		{"C13", "gem", "C13Pair", "gem Compare gives the same sign as Gem::Version#<=>", "Go transliteration of Gem::Version canonical_segments and <=>, validated at dev time on 21 rows in the style of rubygems' test_gem_version.rb (0 mismatches); no ruby exists in this image",
			func(tier string) []string {
				return []string{"{d}", "{d}.{d}", "{d}.{d}.{d}", "{d}.{d}.{d}.{d}", "{d}.0", "{d}.{d}.0.0", "{d}.{d}.{l}{l}{d}", "{d}.{d}.{d}.{l}{l}{d}", "{d}.{d}.{l}", "{d}.{d}.{l}{l}", "{d}.{d}-{l}{l}", "{d}.{d}.{d}-{l}{l}{l}{l}{l}",
					"{d}.{d}.{l}{d}", "{d}.{d}-{l}{l}.{d}", "{d}.{d}.{l}{l}{l}{l}.{l}", "{d}.{d}.{d}.{l}{l}{l}", "{d}.{d}-{d}", "{d}.0.{l}{l}{d}", "{d}{d}.{d}", "{d}.{d}.pre", "{d}.{d}.pre.{l}",
					"{d}.{d}.{l}{d}.{l}", "{d}.{l}{d}.{l}{d}", "{d}.{d}.{l}{d}.{l}{l}{d}",
					// two hyphens, hyphen next to dots
					"{d}.{d}-{l}-{l}", "{d}.{d}-{l}{l}-{l}{d}", "{d}.{d}-{l}.{l}", "{d}.{d}.{l}-{l}",
					// zero-led three-digit numbers
					"{d}.0{d}{d}", "{d}.{d}{d}{d}", "{d}.{d}.{l}0{d}{d}"}
			}},
		{"C14", "alpine", "C14Pair", "alpine Compare gives the same sign as apk-tools on well-formed versions with equal component counts and no leading zeros", "Go transliteration of the rule list (numeric components, letter, suffix ranks with numbers, extra pre/post suffix, -rN), validated at dev time on the 288 well-formed rows of apk-tools' own version.data shipped in the repository (0 mismatches)",
			func(tier string) []string {
				out := []string{"{d}", "{d}.{d}", "{d}.{d}.{d}", "{d}.{d}{l}", "{d}.{d}_{l}{l}{d}", "{d}.{d}_{l}", "{d}.{d}_{l}{d}", "{d}.{d}_{l}{l}{l}", "{d}.{d}_{l}{l}{l}{d}", "{d}.{d}_{l}{l}{l}{l}{d}", "{d}.{d}_{l}{l}{l}{l}{l}", "{d}.{d}{l}_{l}{l}{l}",
					"{d}.{d}_{l}{l}_{l}", "{d}.{d}_{l}{l}{l}_{l}{d}", "{d}.{d}-r{d}", "{d}.{d}_{l}{l}{d}-r{d}", "{d}.{d}{l}-r{d}", "{D}{d}.{d}", "{d}.{D}{d}", "{d}.{d}_{l}{l}", "{d}.{d}{l}_{l}{d}",
					"{d}.{d}_{l}{l}{l}{l}{l}_{l}{l}{l}_{l}", "{d}.{d}_{l}{d}_{l}{l}{l}{d}_{l}{l}{d}", "{d}.{d}_{l}{l}_{l}{l}{l}_{l}{l}{l}{l}{l}", "{d}.{d}_{l}{l}{l}_{l}{l}_{l}{l}{l}{l}",
					// suffix numbers with four and eight digits (date stamps)
					"{d}.{d}_{l}{l}{l}{D}{d}{d}{d}", "{d}.{d}_{l}{D}{d}{d}{d}{d}{d}{d}{d}", "{d}.{d}_{l}{l}{D}{d}{d}{d}{d}{d}{d}{d}"}
				if tier == "thorough" {
					out = append(out, "{d}.{d}.{d}.{d}", "{d}.{d}.{d}.{d}.{d}", "{d}.{d}_{l}{l}{l}{d}_{l}{d}", "{d}.{d}_{l}_{l}{l}_{l}{l}{l}", "{d}.{D}{d}{d}{d}{d}{d}{d}{d}{d}{d}", "{d}.{d}.{d}_{l}{l}{l}{d}-r{D}{d}")
				}
				return out
			}},
	}
	for _, rc := range refs {
		rc := rc
		registerCheck(&CheckDef{
			ID:    rc.id,
			Title: rc.title,
			Pkgs:  []string{zzhPkg},
			Rule:  rc.fn + ": template pair, differential against a reference model executed symbolically by the same engine; inputs restricted to strings the ecosystem accepts and the reference considers valid",
			Gen: func(tier string) []*Config {
				var out []*Config
				ts := rc.extra(tier)
				if rc.id == "C09" {
					ts = append(ts, thin(versionTemplates(rc.eco, "m"), 20)...)
				}
				seen := map[string]bool{}
				var uniq []string
				for _, t := range ts {
					if !seen[t] {
						seen[t] = true
						uniq = append(uniq, t)
					}
				}
				for _, a := range uniq {
					for _, b := range uniq {
						if rc.id == "C11" && strings.Count(a, "{[")+strings.Count(b, "{[") > 7 {
							// two 4-character free runs: more than 50000 reference paths; the
							// 4 x 3 and 3 x 4 pairs are kept (stated in the bounds)
							continue
						}
						out = append(out, &Config{ID: fmt.Sprintf("%s/pair/%s|%s", rc.id, a, b), Pkg: zzhPkg, Func: rc.fn, Args: []ArgSpec{ArgStr(rc.eco), ArgTmpl(a), ArgTmpl(b)}})
					}
				}
				return out
			},
			Bounds: func(tier string) string {
				return fmt.Sprintf("all ordered pairs over %d (quick) templates of the %s grammar listed in engine/checks_ref.go (thorough adds longer raw runs; pairs of two 4-character free runs are outside the bound); digit runs 1-2 characters plus 20/21-digit runs where big numbers matter; ASCII only", len(rc.extra("quick")), rc.eco)
			},
			Assume: []string{"reference model: " + rc.oracle},
		})
	}
}
