package main

// vx selfcheck — translator validation (DESIGN §5): string literals harvested from the
// repository's own tests are pushed through the native library and through the engine in
// concrete mode; every observation (accept/reject of versions and ranges, Compare, Contains,
// vers.Contains) must agree. The regexp intrinsic is compared with the real regexp package.

import (
	"fmt"
	"go/ast"
	"go/parser"
	"go/token"
	"os"
	"path/filepath"
	"regexp"
	"sort"
	"strconv"
	"strings"
	"sync"
	"time"
)

func harvestStrings(dir string) []string {
	seen := map[string]bool{}
	var out []string
	files, _ := filepath.Glob(filepath.Join(dir, "*_test.go"))
	sort.Strings(files)
	fset := token.NewFileSet()
	for _, f := range files {
		af, err := parser.ParseFile(fset, f, nil, 0)
		if err != nil {
			continue
		}
		ast.Inspect(af, func(n ast.Node) bool {
			if bl, ok := n.(*ast.BasicLit); ok && bl.Kind == token.STRING {
				s, err := strconv.Unquote(bl.Value)
				if err == nil && len(s) <= 40 && !seen[s] && isASCIIPrintableOrWS(s) {
					seen[s] = true
					out = append(out, s)
				}
			}
			return true
		})
	}
	return out
}

func isASCIIPrintableOrWS(s string) bool {
	for i := 0; i < len(s); i++ {
		if s[i] >= 0x80 {
			return false
		}
	}
	return true
}

func cmdSelfcheck(argv []string) int {
	t0 := time.Now()
	fast := len(argv) > 0 && argv[0] == "--fast"
	p, err := LoadProgram(harnessRoot, []string{"./..."}, nil)
	if err != nil {
		fmt.Fprintln(os.Stderr, "cannot load /repo:", err)
		return 2
	}
	// 1. regexp intrinsic against the real regexp package
	rxBad := selfcheckRegexp()
	// 2. library observations
	var cases []ReplayCase
	type job struct {
		eco, a, b string
		vers      bool
	}
	var jobs []job
	maxPerEco := 400
	if fast {
		maxPerEco = 120
	}
	for _, eco := range ecosystems {
		lits := harvestStrings(filepath.Join(repoDir, "pkg/ecosystem", eco))
		n := 0
		for i := 0; i+1 < len(lits) && n < maxPerEco; i++ {
			a, b := lits[i], lits[i+1]
			if strings.Contains(a, " ") && len(a) > 25 {
				continue // test names
			}
			jobs = append(jobs, job{eco, a, b, false})
			n++
		}
	}
	vl := harvestStrings(filepath.Join(repoDir, "pkg/spec/vers"))
	var ranges, versions []string
	for _, s := range vl {
		if strings.HasPrefix(s, "vers:") {
			ranges = append(ranges, s)
		} else if len(s) > 0 && len(s) < 20 && !strings.Contains(s, " ") {
			versions = append(versions, s)
		}
	}
	nv := 0
	for i, r := range ranges {
		for k := 0; k < 3 && len(versions) > 0; k++ {
			if fast && nv > 150 {
				break
			}
			jobs = append(jobs, job{"", r, versions[(i*3+k)%len(versions)], true})
			nv++
		}
	}
	// concrete timestamps for the time.Parse intrinsic (eco "time")
	for _, ts := range []string{"20240229120000", "20230229120000", "19000229000000", "20000229235959", "00000101000000", "00010101000000", "99991231235959", "19700101000000", "19691231235959", "20191109211945", "20200601120000", "21000301000000", "20241301000000", "20240431000000", "2024010100000", "20240101006000", "20240101240000", "2024010100000a", "16000229101010", "04000229101010", "01000229101010"} {
		jobs = append(jobs, job{"time", ts, "", false})
	}
	for _, u := range []string{"\xc3\xa9", "a\xc3", "\xc3a", "\xc2\x80", "\xc1\xbf", "\xc0\x80", "\xdf\xbf", "\xe0\xa0\x80", "\xe0\x9f\xbf", "\xed\x9f\xbf", "\xed\xa0\x80", "\xef\xbf\xbd", "\xe4\xb8\xad", "\xe4\xb8", "\xe4", "\xf0\x90\x80\x80", "\xf0\x8f\xbf\xbf", "\xf4\x8f\xbf\xbf", "\xf4\x90\x80\x80", "\xf5\x80\x80\x80", "\xff", "\x80", "\xbf\xbf", "x\xf0\x9f\x98\x80y", "\xf0\x9f\x98", "\xe2\x82\xac1", "\xc3\xa9\xc3\xbc", "1.0\xc3\xa9"} {
		jobs = append(jobs, job{"utf8", u, "", false})
	}
	// every ASCII byte through strconv.Quote / %q (eco "quote"): the native run must also confirm the escape table
	for lo := 0; lo < 128; lo += 16 {
		b := make([]byte, 16)
		for k := range b {
			b[k] = byte(lo + k)
		}
		jobs = append(jobs, job{"quote", string(b), "", false})
	}
	for i, j := range jobs {
		if j.eco == "quote" {
			cases = append(cases, ReplayCase{ID: fmt.Sprint(i), Func: "VXSelfQuoteReport", Args: []string{strconv.Quote(j.a)}})
			continue
		}
		if j.eco == "utf8" {
			cases = append(cases, ReplayCase{ID: fmt.Sprint(i), Func: "VXSelfUTF8Report", Args: []string{strconv.Quote(j.a)}})
			continue
		}
		if j.eco == "time" {
			cases = append(cases, ReplayCase{ID: fmt.Sprint(i), Func: "VXSelfTimeReport", Args: []string{strconv.Quote(j.a)}})
			continue
		}
		if j.vers {
			cases = append(cases, ReplayCase{ID: fmt.Sprint(i), Func: "VXSelfVersReport", Args: []string{strconv.Quote(j.a), strconv.Quote(j.b)}})
		} else {
			cases = append(cases, ReplayCase{ID: fmt.Sprint(i), Func: "VXSelfReport", Args: []string{strconv.Quote(j.eco), strconv.Quote(j.a), strconv.Quote(j.b)}})
		}
	}
	outs, err := p.Replay(zzhPkg, cases, false)
	if err != nil {
		fmt.Fprintln(os.Stderr, "selfcheck native run:", err)
		return 2
	}
	var cfgs []*Config
	for i, j := range jobs {
		o, ok := outs[fmt.Sprint(i)]
		if !ok || o.Outcome != "assert" {
			fmt.Fprintf(os.Stderr, "selfcheck: no native observation for %v (%v)\n", j, o)
			return 2
		}
		want, _ := strconv.Atoi(o.Msg)
		if j.eco == "quote" {
			if want != 1 {
				fmt.Fprintf(os.Stderr, "selfcheck: the escape table used by the strconv.Quote lemma disagrees with the real strconv.Quote on %q\n", j.a)
				return 2
			}
			cfgs = append(cfgs, &Config{ID: fmt.Sprintf("self/quote/%q", j.a), Pkg: zzhPkg, Func: "VXSelfQuote", Args: []ArgSpec{ArgStr(j.a), ArgInt(int64(want))}})
			continue
		}
		if j.eco == "utf8" {
			cfgs = append(cfgs, &Config{ID: fmt.Sprintf("self/utf8/%q", j.a), Pkg: zzhPkg, Func: "VXSelfUTF8", Args: []ArgSpec{ArgStr(j.a), ArgInt(int64(want))}})
			continue
		}
		if j.eco == "time" {
			cfgs = append(cfgs, &Config{ID: fmt.Sprintf("self/time/%q", j.a), Pkg: zzhPkg, Func: "VXSelfTime", Args: []ArgSpec{ArgStr(j.a), ArgInt(int64(want))}})
			continue
		}
		if j.vers {
			cfgs = append(cfgs, &Config{ID: fmt.Sprintf("self/vers/%q|%q", j.a, j.b), Pkg: zzhPkg, Func: "VXSelfVers", Args: []ArgSpec{ArgStr(j.a), ArgStr(j.b), ArgInt(int64(want))}})
		} else {
			cfgs = append(cfgs, &Config{ID: fmt.Sprintf("self/%s/%q|%q", j.eco, j.a, j.b), Pkg: zzhPkg, Func: "VXSelf", Args: []ArgSpec{ArgStr(j.eco), ArgStr(j.a), ArgStr(j.b), ArgInt(int64(want))}})
		}
	}
	results := make([]*Result, len(cfgs))
	ch := make(chan int, len(cfgs))
	for i := range cfgs {
		ch <- i
	}
	close(ch)
	var wg sync.WaitGroup
	for w := 0; w < 16; w++ {
		wg.Add(1)
		go func() {
			defer wg.Done()
			in := NewInterp(p)
			s, err := NewSolver("z3-new", in.tb, 10000)
			if err != nil {
				return
			}
			in.solver = s
			defer s.Close()
			for i := range ch {
				func() {
					defer func() {
						if r := recover(); r != nil {
							results[i] = &Result{Config: cfgs[i], Inconcl: []Inconclusive{{cfgs[i].ID, fmt.Sprintf("engine error: %v", r)}}}
						}
					}()
					results[i] = in.RunConfig(cfgs[i], 1000, time.Now().Add(30*time.Second))
				}()
			}
		}()
	}
	wg.Wait()
	bad, inc := 0, 0
	for _, r := range results {
		if r == nil {
			inc++
			continue
		}
		if len(r.Violations) > 0 {
			bad++
			if bad <= 15 {
				fmt.Printf("SELFCHECK-MISMATCH %s\n", r.Config.ID)
			}
		}
		if len(r.Inconcl) > 0 {
			inc++
			if inc <= 10 {
				fmt.Printf("SELFCHECK-INCONCLUSIVE %s: %s\n", r.Config.ID, r.Inconcl[0].Reason)
			}
		}
	}
	stdBad := selfcheckStd(p)
	fmt.Printf("selfcheck: %d library observations compared (native vs engine), mismatches=%d inconclusive=%d; regexp intrinsic mismatches=%d; std lemma failures=%d; %.1fs\n", len(cfgs), bad, inc, rxBad, stdBad, time.Since(t0).Seconds())
	if bad > 0 || rxBad > 0 || stdBad > 0 {
		return 1
	}
	return 0
}

// selfcheckStd: symbolic lemmas about library functions the engine runs from source or through
// an intrinsic (harness VXStd*): each lemma must hold for every string of its template, and its
// negated twin must be reported (otherwise the lemma would hold vacuously).
func selfcheckStd(p *Program) int {
	A := func(n int) string { return strings.Repeat("{A}", n) }
	type lemma struct {
		fn   string
		args []ArgSpec
	}
	var ls []lemma
	for _, n := range [][2]int{{1, 1}, {2, 2}, {2, 1}, {3, 3}} {
		ls = append(ls, lemma{"VXStdFold", []ArgSpec{ArgTmpl(A(n[0])), ArgTmpl(A(n[1]))}})
	}
	for _, n := range [][2]int{{3, 1}, {3, 2}, {2, 3}, {4, 0}} {
		ls = append(ls, lemma{"VXStdStrings", []ArgSpec{ArgTmpl(A(n[0])), ArgTmpl(A(n[1]))}})
	}
	for _, t := range []string{"{[0-9+\\-a_]}{[0-9a_]}{d}", "{d}{d}{d}{d}", "{[+\\-]}", ""} {
		ls = append(ls, lemma{"VXStdAtoi", []ArgSpec{ArgTmpl(t)}})
	}
	ls = append(ls, lemma{"VXStdFold2", []ArgSpec{ArgTmpl(A(3))}})
	ls = append(ls, lemma{"VXStdSentinel", []ArgSpec{ArgTmpl("{i}{i}")}})
	for _, t := range []string{"{[0-9+\\-a_]}{[0-9a_]}{d}", "{d}{d}{d}{d}", "{[+\\-]}{d}", "{i}{i}", "{[0-9+\\-a_A]}{[0-9a_A\\-]}{[0-9A\\-]}"} {
		ls = append(ls, lemma{"VXStdParseInt", []ArgSpec{ArgTmpl(t)}})
	}
	// regexp matching on symbolic bytes >= 0x80 (no leads of 3- and 4-byte sequences: those are unsupported)
	for _, t := range []string{"{[\\x00-\\xdf\\xf5-\\xff]}", "{[\\x00-\\xdf\\xf5-\\xff]}{[\\x00-\\xdf\\xf5-\\xff]}", "{d}{[\\xc2-\\xdf]}{[\\x80-\\xbf]}"} {
		ls = append(ls, lemma{"VXStdRegexp", []ArgSpec{ArgTmpl(t)}})
	}
	for _, t := range []string{"{[\\x00-\\xdf\\xf5-\\xff]}", "{[\\xc2-\\xdf]}{[\\x80-\\xbf]}", "{a}{[\\xc2-\\xdf]}{[\\x80-\\xbf]}{a}"} {
		ls = append(ls, lemma{"VXStdCase", []ArgSpec{ArgTmpl(t)}})
	}
	// strconv.Quote / %q over every pair of ASCII bytes
	ls = append(ls, lemma{"VXStdQuote", []ArgSpec{ArgTmpl("{[\\x00-\\x7f]}{[\\x00-\\x7f]}")}})
	// for-range rune decoding over all byte strings of length 1-3 and 4-byte strings with a 4-byte lead
	for _, t := range []string{"{B}", "{B}{B}", "{B}{B}{B}", "{[\\xf0-\\xf7]}{B}{B}{B}"} {
		ls = append(ls, lemma{"VXStdUTF8", []ArgSpec{ArgTmpl(t)}})
	}
	// the time.Parse intrinsic: every valid 14-digit timestamp of eight centuries (leap and non-leap
	// century years, year 0); all 100 centuries at once is decided by cvc5 only (z3: unknown at 60 s)
	for _, cc := range []string{"00", "01", "04", "15", "19", "20", "21", "99"} {
		ls = append(ls, lemma{"VXStdTime", []ArgSpec{ArgTmpl(cc + strings.Repeat("{d}", 12))}})
	}
	ls = append(ls, lemma{"VXStdTime", []ArgSpec{ArgTmpl("20{d}{d}0{D}1{d}1{d}{[0-5]}{d}{[0-5]}{d}")}})
	bad := 0
	for _, solver := range []string{"z3-new", "z3", "cvc5"} {
		in := NewInterp(p)
		sv, err := NewSolver(solver, in.tb, 60000)
		if err != nil {
			if solver == "z3-new" {
				fmt.Fprintln(os.Stderr, "selfcheck std:", err)
				return 1
			}
			fmt.Printf("selfcheck: solver %s not available, lemma cross-check skipped for it\n", solver)
			continue
		}
		in.solver = sv
		t1 := time.Now()
		for _, l := range ls {
			if solver == "z3" && l.fn == "VXStdTime" && !strings.HasPrefix(l.args[0].S, "20") {
				continue // z3 4.8.12 needs ~15 s per century; one century is enough for the cross-check
			}
			if solver == "z3" && l.fn == "VXStdCase" {
				continue // the case-mapping lemmas (hundreds of range atoms) take z3 4.8.12 over a minute
			}
			for _, flip := range []bool{false, true} {
				cfg := &Config{ID: fmt.Sprintf("self/std/%s/%s/%v/%v", solver, l.fn, l.args, flip), Pkg: zzhPkg, Func: l.fn, Args: append(append([]ArgSpec{}, l.args...), ArgBool(flip))}
				var r *Result
				func() {
					defer func() {
						if e := recover(); e != nil {
							r = &Result{Config: cfg, Inconcl: []Inconclusive{{cfg.ID, fmt.Sprintf("engine error: %v", e)}}}
						}
					}()
					r = in.RunConfig(cfg, 20000, time.Now().Add(180*time.Second))
				}()
				switch {
				case len(r.Inconcl) > 0:
					bad++
					fmt.Printf("SELFCHECK-STD inconclusive %s: %s\n", cfg.ID, r.Inconcl[0].Reason)
				case !flip && len(r.Violations) > 0:
					bad++
					fmt.Printf("SELFCHECK-STD lemma fails %s: %v\n", cfg.ID, r.Violations[0].Args)
				case flip && len(r.Violations) == 0:
					bad++
					fmt.Printf("SELFCHECK-STD negated twin not reported (vacuous lemma) %s\n", cfg.ID)
				}
			}
		}
		sv.Close()
		fmt.Printf("selfcheck: %d lemmas and their negated twins decided by %s in %.1fs\n", len(ls), solver, time.Since(t1).Seconds())
	}
	fmt.Printf("selfcheck: %d symbolic library lemmas (EqualFold from source with bitwise terms, strings/strconv intrinsics), each with a negated twin, under z3 5.1.0, z3 4.8.12 and cvc5 (same verdicts required)\n", len(ls))
	return bad
}

// selfcheckRegexp compares the symbolic matcher (on concrete input) with the real regexp package
// for every pattern found in the repository, on harvested and generated short strings.
func selfcheckRegexp() int {
	var pats []string
	re := regexp.MustCompile("regexp\\.MustCompile\\(`([^`]*)`\\)")
	filepath.Walk(filepath.Join(repoDir, "pkg"), func(path string, info os.FileInfo, err error) error {
		if err == nil && strings.HasSuffix(path, ".go") && !strings.HasSuffix(path, "_test.go") {
			data, _ := os.ReadFile(path)
			for _, m := range re.FindAllStringSubmatch(string(data), -1) {
				pats = append(pats, m[1])
			}
		}
		return nil
	})
	in := &Interp{tb: NewTB(), lits: map[int32]bool{}, doms: map[*Term]ByteSet{}}
	in.ctx = &Ctx{root: &dnode{}}
	in.ctx.cur = in.ctx.root
	bad := 0
	total := 0
	alphabet := []byte("01a.-+~_v^:x *")
	var inputs []string
	var gen func(prefix string, n int)
	gen = func(prefix string, n int) {
		inputs = append(inputs, prefix)
		if n == 0 {
			return
		}
		for _, c := range alphabet {
			gen(prefix+string(c), n-1)
		}
	}
	gen("", 3)
	for _, eco := range ecosystems {
		inputs = append(inputs, harvestStrings(filepath.Join(repoDir, "pkg/ecosystem", eco))...)
	}
	for _, pat := range pats {
		real, err := regexp.Compile(pat)
		if err != nil {
			continue
		}
		ro, err := compileRegex(pat)
		if err != nil {
			bad++
			continue
		}
		for _, s := range inputs {
			total++
			want := real.FindStringSubmatchIndex(s)
			var got []int
			func() {
				defer func() {
					if r := recover(); r != nil {
						got = []int{-99}
					}
				}()
				got = in.rxFind(ro, in.mkStr(s).B)
			}()
			if !sameIdx(want, got) {
				bad++
				if bad <= 10 {
					fmt.Printf("SELFCHECK-REGEXP pattern %q input %q: real %v, intrinsic %v\n", pat, s, want, got)
				}
			}
		}
	}
	fmt.Printf("selfcheck: regexp intrinsic compared with package regexp on %d (pattern, input) pairs over %d patterns\n", total, len(pats))
	return bad
}

func sameIdx(a, b []int) bool {
	if (a == nil) != (b == nil) {
		return false
	}
	if len(a) != len(b) {
		return false
	}
	for i := range a {
		if a[i] != b[i] {
			return false
		}
	}
	return true
}
