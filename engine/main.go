package main

import (
	"encoding/json"
	"path/filepath"
	"flag"
	"runtime/pprof"
	"fmt"
	"os"
	"strings"
	"time"
)

var harnessRoot = filepath.Join(verifDir, "harness")

func main() {
	if len(os.Args) < 2 {
		fmt.Fprintln(os.Stderr, "usage: vx run|check|selfcheck|replay ...")
		os.Exit(2)
	}
	if pf := os.Getenv("VX_PROFILE"); pf != "" {
		f, _ := os.Create(pf)
		pprof.StartCPUProfile(f)
		defer pprof.StopCPUProfile()
	}
	switch os.Args[1] {
	case "run":
		cmdRun(os.Args[2:])
	case "check":
		os.Exit(cmdCheck(os.Args[2:]))
	case "selfcheck":
		os.Exit(cmdSelfcheck(os.Args[2:]))
	case "replay":
		os.Exit(cmdReplay(os.Args[2:]))
	case "tmplcheck":
		os.Exit(cmdTmplCheck())
	case "templates":
		for _, eco := range ecosystems {
			for _, sz := range []string{"s", "m", "l"} {
				fmt.Printf("%s %s %d\n", eco, sz, len(versionTemplates(eco, sz)))
			}
			fmt.Printf("%s upper-capable range-safe %d\n", eco, len(rangeSafe(eco, upperCapable(append(versionTemplates(eco, "m"), versionTemplates(eco, "l")...)))))
		}
	case "count":
		// vx count <tier>: number of configurations per check
		tier := "quick"
		if len(os.Args) > 2 {
			tier = os.Args[2]
		}
		for i := 1; i <= 20; i++ {
			id := fmt.Sprintf("C%02d", i)
			if cd := checks[id]; cd != nil {
				fmt.Printf("%s %s %d\n", id, tier, len(cd.Gen(tier)))
			}
		}
	default:
		fmt.Fprintln(os.Stderr, "unknown command", os.Args[1])
		os.Exit(2)
	}
}

// vx run -pkg <path> -func <name> [-v] arg... ; args: s:<concrete> t:<template> i:<int> n:<lo>..<hi> b:<bool>
func cmdRun(argv []string) {
	fs := flag.NewFlagSet("run", flag.ExitOnError)
	pkg := fs.String("pkg", modPath+"/pkg/zzh", "package path")
	fn := fs.String("func", "", "harness function")
	verbose := fs.Bool("v", false, "verbose")
	solver := fs.String("solver", "z3", "solver")
	nomerge := fs.Bool("nomerge", false, "disable merging")
	fs.Parse(argv)
	t0 := time.Now()
	p, err := LoadProgram(harnessRoot, []string{"./..."}, nil)
	if err != nil {
		fmt.Fprintln(os.Stderr, err)
		os.Exit(2)
	}
	p.noMergeAll = *nomerge
	fmt.Printf("loaded in %.1fs\n", time.Since(t0).Seconds())
	cfg := &Config{ID: "cli", Pkg: *pkg, Func: *fn}
	for _, a := range fs.Args() {
		switch {
		case strings.HasPrefix(a, "s:"):
			cfg.Args = append(cfg.Args, ArgStr(a[2:]))
		case strings.HasPrefix(a, "t:"):
			cfg.Args = append(cfg.Args, ArgTmpl(a[2:]))
		case strings.HasPrefix(a, "i:"):
			var i int64
			fmt.Sscan(a[2:], &i)
			cfg.Args = append(cfg.Args, ArgInt(i))
		case strings.HasPrefix(a, "n:"):
			var lo, hi int64
			fmt.Sscanf(a[2:], "%d..%d", &lo, &hi)
			cfg.Args = append(cfg.Args, ArgSym(lo, hi))
		case strings.HasPrefix(a, "b:"):
			cfg.Args = append(cfg.Args, ArgBool(a[2:] == "true"))
		default:
			fmt.Fprintln(os.Stderr, "bad arg", a)
			os.Exit(2)
		}
	}
	in := NewInterp(p)
	s, err := NewSolver(*solver, in.tb, 10000)
	if err != nil {
		fmt.Fprintln(os.Stderr, err)
		os.Exit(2)
	}
	in.solver = s
	defer s.Close()
	res := in.RunConfig(cfg, 1<<40, time.Now().Add(45*time.Second))
	printResult(res, *verbose)
}

func printResult(res *Result, verbose bool) {
	fmt.Printf("config %s: paths=%d asserts=%d triv=%d violations=%d inconclusive=%d vacuous=%v\n", res.Config.ID, res.Paths, res.Asserts, res.TrivAsserts, len(res.Violations), len(res.Inconcl), res.Vacuous)
	fmt.Printf("  instrs=%d forks=%d mergedCalls=%d mergedPaths=%d aborts=%d\n", res.Stats.Instrs, res.Stats.Forks, res.Stats.MergedCalls, res.Stats.MergedPaths, res.Stats.MergeAborts)
	fmt.Printf("  solver: q=%d unsat=%d sat=%d unknown=%d time=%.2fs wall=%.2fs size=%s\n", res.SolverQ, res.SolverUnsat, res.SolverSat, res.SolverUnk, res.SolverTime.Seconds(), res.Wall.Seconds(), res.TemplateSize)
	if res.Reach != nil {
		fmt.Printf("  reach: %v\n", res.Reach.Args)
	}
	for _, v := range res.Violations {
		fmt.Printf("  VIOL %s: %s %v\n", v.Kind, v.Msg, v.Args)
	}
	for _, i := range res.Inconcl {
		fmt.Printf("  INCONCLUSIVE %s\n", i.Reason)
	}
	if verbose {
		for k, n := range res.Notes {
			fmt.Printf("  note: %s (%d)\n", k, n)
		}
		for k, n := range res.Natives {
			fmt.Printf("  native: %s (%d)\n", k, n)
		}
		for k, n := range res.Funcs {
			fmt.Printf("  func: %s (%d)\n", k, n)
		}
	}
}

func cmdCheck(argv []string) int {
	if len(argv) == 0 {
		fmt.Fprintln(os.Stderr, "usage: vx check <id> [--tier quick|thorough] [--strict]")
		return 2
	}
	id := argv[0]
	fs := flag.NewFlagSet("check", flag.ExitOnError)
	tier := fs.String("tier", "", "quick|thorough")
	strict := fs.Bool("strict", false, "exit 3 on unexplored/vacuous configurations")
	workers := fs.Int("workers", 16, "parallel workers")
	solver := fs.String("solver", "z3-new", "solver")
	filter := fs.String("filter", "", "only configurations whose id contains this")
	verbose := fs.Bool("v", false, "progress output")
	timeout := fs.Int("timeout", 0, "per-query timeout (ms)")
	limit := fs.Int("limit", 0, "max configurations")
	cfgTimeout := fs.Int("cfgtimeout", 0, "per-configuration time budget (s)")
	cross := fs.String("cross", "default", "second solver re-deciding a sample of the verdicts (cvc5|z3|z3-new|none); default: cvc5 in the thorough tier, none in the quick tier")
	crossEvery := fs.Int("cross-every", 25, "re-decide every n-th definite verdict with the second solver")
	fs.Parse(argv[1:])
	if *tier == "" {
		*tier = os.Getenv("VERIF_TIER")
	}
	if *tier == "" {
		*tier = "quick"
	}
	if *timeout == 0 {
		*timeout = 10000
		if *tier == "thorough" {
			*timeout = 60000
		}
	}
	if *cfgTimeout == 0 {
		// generous: the registered configurations need at most a third of this on an idle machine
		*cfgTimeout = 150
		if *tier == "thorough" {
			*cfgTimeout = 900
		}
	}
	if *cross == "default" {
		*cross = "none"
		if *tier == "thorough" {
			*cross = "cvc5"
		}
	}
	if *cross == "none" {
		*cross = ""
	}
	return runCheck(id, checkOpts{cross: *cross, crossEvery: *crossEvery, cfgTimeout: *cfgTimeout, tier: *tier, workers: *workers, strict: *strict, solver: *solver, filter: *filter, verbose: *verbose, timeout: *timeout, limit: *limit})
}

// cmdTmplCheck reports grammar templates that the current parser rejects for every content.
func cmdTmplCheck() int {
	registerCheck(&CheckDef{ID: "T00", Title: "template acceptance", Bounds: func(string) string { return "" },
		Gen: func(tier string) []*Config {
			var out []*Config
			for _, eco := range ecosystems {
				seen := map[string]bool{}
				for _, sz := range []string{"s", "m", "l"} {
					for _, t := range versionTemplates(eco, sz) {
						if seen[t] {
							continue
						}
						seen[t] = true
						out = append(out, &Config{ID: "T00/" + eco + "/" + t, Pkg: zzhPkg, Func: "VXAccept", Args: []ArgSpec{ArgStr(eco), ArgTmpl(t)}})
					}
				}
			}
			return out
		}})
	return runCheck("T00", checkOpts{tier: "quick", workers: 16, solver: "z3-new", timeout: 10000, cfgTimeout: 60})
}

// vx replay <path>: re-run one stored counterexample natively.
func cmdReplay(argv []string) int {
	if len(argv) != 1 {
		fmt.Fprintln(os.Stderr, "usage: vx replay <evidence/replays/Cxx-n.json>")
		return 2
	}
	data, err := os.ReadFile(argv[0])
	if err != nil {
		fmt.Fprintln(os.Stderr, err)
		return 2
	}
	var w Witness
	if err := json.Unmarshal(data, &w); err != nil {
		fmt.Fprintln(os.Stderr, err)
		return 2
	}
	p, err := LoadProgram(harnessRoot, []string{"./..."}, nil)
	if err != nil {
		fmt.Fprintln(os.Stderr, err)
		return 2
	}
	outs, err := p.Replay(w.Pkg, []ReplayCase{{ID: "r", Func: w.Func, Args: w.Args, Active: w.Active}}, false)
	if err != nil {
		fmt.Fprintln(os.Stderr, err)
		return 2
	}
	o := outs["r"]
	fmt.Printf("%s(%s): %s %s\n", w.Func, strings.Join(w.Args, ", "), o.Outcome, o.Msg)
	if o.Outcome == "assert" || o.Outcome == "panic" || o.Outcome == "timeout" {
		return 1
	}
	return 0
}
