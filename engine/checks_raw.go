package main

import (
	"fmt"
	"strings"
)

func rawTemplate(class string, n int) string { return strings.Repeat("{"+class+"}", n) }

// syntaxAlphabet: the syntax-relevant 16+ symbol alphabet per ecosystem (second C06 pass).
const syntaxClass = "[019axv.\\-+~^_:, |<>=!*\\[\\]()]"

func init() {
	registerCheck(&CheckDef{
		ID:    "C06",
		Title: "NewVersion / NewVersionRange / vers.Contains never panic, always terminate within the unwinding bound, and return value xor error; Compare, String, Contains on accepted values do not panic",
		Pkgs:  []string{zzhPkg, cmdPkg},
		Rule:  "raw mode: every byte of the input string is symbolic (ASCII); one configuration per entry point x ecosystem x length; the engine reports any Go panic or unwinding failure on a feasible path",
		Gen: func(tier string) []*Config {
			var out []*Config
			nv, nr, ns := 5, 4, 7
			if tier == "thorough" {
				nv, nr, ns = 7, 5, 9
			}
			for _, eco := range ecosystems {
				for n := 0; n <= nv; n++ {
					out = append(out, &Config{ID: fmt.Sprintf("C06/V/%s/ascii%d", eco, n), Pkg: zzhPkg, Func: "C06V", NoPanic: true, ScalarMergeOnly: true, Args: []ArgSpec{ArgStr(eco), ArgTmpl(rawTemplate("A", n))}})
				}
				for n := nv + 1; n <= ns; n++ {
					out = append(out, &Config{ID: fmt.Sprintf("C06/V/%s/syntax%d", eco, n), Pkg: zzhPkg, Func: "C06V", NoPanic: true, ScalarMergeOnly: true, Args: []ArgSpec{ArgStr(eco), ArgTmpl(rawTemplate(syntaxClass, n))}})
				}
				probe := thin(versionTemplates(eco, "s"), 2)
				for n := 0; n <= nr; n++ {
					for _, p := range probe {
						out = append(out, &Config{ID: fmt.Sprintf("C06/R/%s/ascii%d/%s", eco, n, p), Pkg: zzhPkg, Func: "C06R", NoPanic: true, ScalarMergeOnly: true, Args: []ArgSpec{ArgStr(eco), ArgTmpl(rawTemplate("A", n)), ArgTmpl(p)}})
					}
				}
				for n := nr + 1; n <= nr+2; n++ {
					if tier != "thorough" && n == nr+2 && (eco == "composer" || eco == "maven" || eco == "conan" || eco == "cargo" || eco == "npm") {
						continue // too many paths for the quick budget
					}
					out = append(out, &Config{ID: fmt.Sprintf("C06/R/%s/syntax%d", eco, n), Pkg: zzhPkg, Func: "C06R", NoPanic: true, ScalarMergeOnly: true, Args: []ArgSpec{ArgStr(eco), ArgTmpl(rawTemplate(syntaxClass, n)), ArgTmpl(probe[0])}})
				}
			}
			// vers.Contains: raw tails after a valid prefix, raw heads, raw versions
			nt := 4
			if tier == "thorough" {
				nt = 5
			}
			for _, scheme := range []string{"npm", "deb", "pypi", "maven", "golang"} {
				for n := 0; n <= nt; n++ {
					out = append(out, &Config{ID: fmt.Sprintf("C06/vers/%s/tail%d", scheme, n), Pkg: zzhPkg, Func: "C06Vers", NoPanic: true, ScalarMergeOnly: true,
						Args: []ArgSpec{ArgTmpl("vers:" + scheme + "/" + rawTemplate("A", n)), ArgTmpl("{d}.{d}.{d}")}})
				}
				for n := 0; n <= 3; n++ {
					out = append(out, &Config{ID: fmt.Sprintf("C06/vers/%s/version%d", scheme, n), Pkg: zzhPkg, Func: "C06Vers", NoPanic: true, ScalarMergeOnly: true,
						Args: []ArgSpec{ArgTmpl("vers:" + scheme + "/>={d}.{d}|<{d}.{d}.{d}"), ArgTmpl(rawTemplate("A", n))}})
				}
			}
			for n := 0; n <= nt+2; n++ {
				out = append(out, &Config{ID: fmt.Sprintf("C06/vers/head%d", n), Pkg: zzhPkg, Func: "C06Vers", NoPanic: true, ScalarMergeOnly: true,
					Args: []ArgSpec{ArgTmpl(rawTemplate("A", n) + ">=1.0|<2"), ArgStr("1.5")}})
				out = append(out, &Config{ID: fmt.Sprintf("C06/vers/syntax%d", n+2), Pkg: zzhPkg, Func: "C06Vers", NoPanic: true, ScalarMergeOnly: true,
					Args: []ArgSpec{ArgTmpl("vers:npm/" + rawTemplate("[0-9v.<>=!*| a\\-]", n+2)), ArgStr("1.5.0")}})
			}
			// CLI argument vectors (run never panics, exit status 0 or 1, a line is written)
			for n := 0; n <= 5; n++ {
				for _, nm := range []string{"npm", "vers", "{A}{A}{A}"} {
					for _, cm := range []string{"compare", "contains", "sort", "{A}{A}"} {
						if n < 2 && cm != "compare" {
							continue
						}
						out = append(out, &Config{ID: fmt.Sprintf("C06/cli/%d/%s/%s", n, nm, cm), Pkg: cmdPkg, Func: "C15Argv", NoPanic: true, ScalarMergeOnly: true,
							Args: []ArgSpec{ArgInt(int64(n)), ArgTmpl(nm), ArgTmpl(cm), ArgTmpl("{A}{A}{A}"), ArgTmpl("{A}{A}"), ArgTmpl("{A}")}})
					}
				}
			}
			return out
		},
		Bounds: func(tier string) string {
			return "vers.Contains with raw ASCII tails <= 4/5 bytes after 5 scheme prefixes, raw heads <= 6/7, raw versions <= 3, tails <= 8/9 over a 19-symbol VERS alphabet; CLI argument vectors of 0-5 arguments with raw ASCII names, commands and arguments (2-3 bytes); all ASCII strings of length <= 5 (quick) / 7 (thorough) for version parsers and <= 4 / 5 for range parsers, plus strings up to 7 / 9 (versions) and 6 / 7 (ranges) over a 27-symbol syntax alphabet; probes for Contains from 2 grammar templates; bytes >= 0x80, the quadratic time bound and long inputs are outside the claim"
		},
		MaxPaths: 3000000,
	})
}
