package main

import (
	"fmt"
	"strings"
)

func rawTemplate(class string, n int) string { return strings.Repeat("{"+class+"}", n) }

// syntaxAlphabet: the syntax-relevant 16+ symbol alphabet per ecosystem (second C06 pass).
const syntaxClass = "[019axv.\\-+~^_:, |<>=!*\\[\\]()]"

// splitFirst partitions the byte set of the first class position of a template into at most
// `parts` chunks and returns one template per chunk (together they cover exactly the original):
// the work of a heavy raw-mode configuration is spread over the workers and each piece stays
// well inside the per-configuration budget.
func splitFirst(t string, parts int) []string {
	pos, err := parseTemplate(t)
	if err != nil {
		return []string{t}
	}
	first := -1
	for i, p := range pos {
		if !p.lit {
			first = i
			break
		}
	}
	if first < 0 || parts <= 1 {
		return []string{t}
	}
	var members []int
	for c := 0; c < 256; c++ {
		if pos[first].set.Has(c) {
			members = append(members, c)
		}
	}
	if len(members) < 2 {
		return []string{t}
	}
	if parts > len(members) {
		parts = len(members)
	}
	render := func(i int, set []int) string {
		var sb strings.Builder
		for j, p := range pos {
			switch {
			case j == i:
				sb.WriteString("{[")
				// ']' first, so that the text "]}" only occurs at the end of the set
				for _, c := range set {
					if c == ']' {
						sb.WriteString("\\]")
					}
				}
				for _, c := range set {
					switch c {
					case ']':
					case '\\', '-', '^', '{', '}':
						sb.WriteByte('\\')
						sb.WriteByte(byte(c))
					case '\t':
						sb.WriteString("\\t")
					case '\n':
						sb.WriteString("\\n")
					case '\r':
						sb.WriteString("\\r")
					case 0:
						sb.WriteString("\\0")
					default:
						sb.WriteByte(byte(c))
					}
				}
				sb.WriteString("]}")
			case p.lit:
				if p.b == '{' || p.b == '\\' {
					sb.WriteByte('\\')
				}
				sb.WriteByte(p.b)
			default:
				if strings.HasPrefix(p.label, "[") {
					sb.WriteString("{" + p.label + "}")
				} else {
					sb.WriteString("{" + p.label + "}")
				}
			}
		}
		return sb.String()
	}
	var out []string
	var union ByteSet
	for k := 0; k < parts; k++ {
		lo, hi := k*len(members)/parts, (k+1)*len(members)/parts
		if lo < hi {
			r := render(first, members[lo:hi])
			// self-check: the piece parses back to the same positions with exactly this chunk first
			q, err := parseTemplate(r)
			if err != nil || len(q) != len(pos) {
				panic("splitFirst: piece does not parse back: " + r)
			}
			for j := range q {
				if j == first {
					for _, c := range members[lo:hi] {
						if !q[j].set.Has(c) {
							panic("splitFirst: piece lost a member: " + r)
						}
					}
					if q[j].set.Count() != hi-lo {
						panic("splitFirst: piece gained a member: " + r)
					}
					for c := 0; c < 256; c++ {
						if q[j].set.Has(c) {
							union.Add(c)
						}
					}
				} else if q[j].lit != pos[j].lit || q[j].b != pos[j].b || q[j].set != pos[j].set {
					panic("splitFirst: piece changed another position: " + r)
				}
			}
			out = append(out, r)
		}
	}
	if union != pos[first].set {
		panic("splitFirst: pieces do not cover the original set: " + t)
	}
	return out
}

// Per-ecosystem caps of the syntax-alphabet lengths (thorough tier): beyond them a piece of the
// split configuration does not finish inside its 900 s budget (measured; gem and maven tokenise
// character by character with many branches, cargo ranges re-parse partial versions).
func syntaxCapV(eco string) int {
	switch eco {
	case "gem":
		return 7
	case "maven":
		return 8
	}
	return 9
}

func syntaxCapR(eco string) int {
	switch eco {
	case "gem", "cargo":
		return 6
	}
	return 7
}

// rangeTokens: the token alphabet of an ecosystem's range grammar (at most 8 tokens).
func rangeTokens(eco string) []string {
	spec := opsTable[eco]
	ops := spec.ops
	if eco == "nuget" {
		ops = nugetListOps
	}
	var out []string
	add := func(t string) {
		if t != "" && !has(out, t) {
			out = append(out, t)
		}
	}
	for _, op := range thin(ops, 3) {
		add(op)
	}
	// one shorthand operator (the literal head of the first shorthand range that has one)
	for _, r := range shorthandRanges(eco) {
		i := strings.IndexAny(r, "{0123456789")
		if i > 0 && strings.TrimSpace(r[:i]) != "" {
			add(strings.TrimSpace(r[:i]))
			break
		}
	}
	for _, sep := range append(append([]string{}, spec.ands...), spec.ors...) {
		add(strings.TrimSpace(sep))
	}
	switch eco {
	case "maven", "nuget":
		add("[")
		add(",")
		add("]")
	}
	add("{d}.{d}.{d}")
	if len(out) > 8 {
		out = append(out[:7], "{d}.{d}.{d}")
	}
	return out
}

// splitLast: prefix (concrete) + the pieces of the raw part split on its first position.
func splitLast(cond bool, prefix, raw string, parts int) []string {
	var out []string
	for _, r := range splitIf(cond, raw, parts) {
		out = append(out, prefix+r)
	}
	return out
}

func splitIf(cond bool, t string, parts int) []string {
	if !cond {
		return []string{t}
	}
	return splitFirst(t, parts)
}

func init() {
	registerCheck(&CheckDef{
		ID:    "C06",
		Title: "NewVersion / NewVersionRange / vers.Contains never panic, always terminate within the unwinding bound, and return value xor error; Compare, String, Contains on accepted values do not panic",
		Pkgs:  []string{zzhPkg, cmdPkg},
		Rule:  "raw mode: every byte of the input string is symbolic (ASCII); one configuration per entry point x ecosystem x length; the engine reports any Go panic or unwinding failure on a feasible path",
		Gen: func(tier string) []*Config {
			var out []*Config
			nv, nr, ns := 5, 4, 7
			if tier == "thorough" {
				nv, nr, ns = 7, 5, 9
			}
			for _, eco := range ecosystems {
				for n := 0; n <= nv; n++ {
					pieces := 8
					if n >= 7 {
						pieces = 16 // maven's tokenizer needs > 900 s for an eighth of the 7-byte strings under load
					}
					for k, t := range splitIf(n >= 5, rawTemplate("A", n), pieces) {
						out = append(out, &Config{ID: fmt.Sprintf("C06/V/%s/ascii%d/%d", eco, n, k), Pkg: zzhPkg, Func: "C06V", NoPanic: true, ScalarMergeOnly: true, Args: []ArgSpec{ArgStr(eco), ArgTmpl(t)}})
					}
				}
				for n := nv + 1; n <= ns; n++ {
					if n > syntaxCapV(eco) {
						continue
					}
					for k, t := range splitIf(n >= 6, rawTemplate(syntaxClass, n), 9) {
						out = append(out, &Config{ID: fmt.Sprintf("C06/V/%s/syntax%d/%d", eco, n, k), Pkg: zzhPkg, Func: "C06V", NoPanic: true, ScalarMergeOnly: true, Args: []ArgSpec{ArgStr(eco), ArgTmpl(t)}})
					}
				}
				// a well-formed core followed by a raw tail (every ASCII tail of <= 3 bytes, tails of 4 over
				// the syntax alphabet) and preceded by a raw head of <= 2 bytes: the qualifier, suffix and
				// prefix code paths start only after a valid beginning ("2.4.41-v1")
				if ms := mustTemplates(eco); len(ms) > 0 {
					core := concretize(ms[len(ms)-1], "1")
					for n := 1; n <= 3; n++ {
						for k, t := range splitLast(n >= 3, core, rawTemplate("A", n), 8) {
							out = append(out, &Config{ID: fmt.Sprintf("C06/V/%s/tail%d/%d", eco, n, k), Pkg: zzhPkg, Func: "C06V", NoPanic: true, ScalarMergeOnly: true, Args: []ArgSpec{ArgStr(eco), ArgTmpl(t)}})
						}
					}
					for k, t := range splitLast(true, core, rawTemplate(syntaxClass, 4), 9) {
						out = append(out, &Config{ID: fmt.Sprintf("C06/V/%s/tail4/%d", eco, k), Pkg: zzhPkg, Func: "C06V", NoPanic: true, ScalarMergeOnly: true, Args: []ArgSpec{ArgStr(eco), ArgTmpl(t)}})
					}
					for n := 1; n <= 2; n++ {
						out = append(out, &Config{ID: fmt.Sprintf("C06/V/%s/head%d", eco, n), Pkg: zzhPkg, Func: "C06V", NoPanic: true, ScalarMergeOnly: true, Args: []ArgSpec{ArgStr(eco), ArgTmpl(rawTemplate("A", n) + core)}})
					}
				}
				// bytes >= 0x80: every byte that is not the lead of a 3- or 4-byte sequence (symbolic), a
				// symbolic two-byte sequence inside a version, and concrete 3- and 4-byte runes
				nonASCII := []string{"{[\\x00-\\xdf\\xf5-\\xff]}", "{[\\x00-\\xdf\\xf5-\\xff]}{[\\x00-\\xdf\\xf5-\\xff]}", "{d}.{d}{[\\xc2-\\xdf]}{[\\x80-\\xbf]}", "{d}{[\\xc2-\\xdf]}{[\\x80-\\xbf]}.{d}",
					"{d}.{d}\xe4\xb8\xad", "\xe4\xb8\xad{d}", "{d}.{d}\xf0\x9f\x98\x80", "{d}.{d}.{d}-{[\\xc2-\\xdf]}{[\\x80-\\xbf]}"}
				for k, t := range nonASCII {
					out = append(out, &Config{ID: fmt.Sprintf("C06/V/%s/utf8/%d", eco, k), Pkg: zzhPkg, Func: "C06V", NoPanic: true, ScalarMergeOnly: true, Args: []ArgSpec{ArgStr(eco), ArgTmpl(t)}})
				}
				probe := thin(versionTemplates(eco, "s"), 2)
				for k, t := range nonASCII {
					for _, pre := range []string{"", ">="} {
						out = append(out, &Config{ID: fmt.Sprintf("C06/R/%s/utf8/%s%d", eco, pre, k), Pkg: zzhPkg, Func: "C06R", NoPanic: true, ScalarMergeOnly: true, Args: []ArgSpec{ArgStr(eco), ArgTmpl(pre + t), ArgTmpl(probe[0])}})
					}
				}
				for n := 0; n <= nr; n++ {
					for _, p := range probe {
						for k, t := range splitIf(n >= 4, rawTemplate("A", n), 8) {
							out = append(out, &Config{ID: fmt.Sprintf("C06/R/%s/ascii%d/%s/%d", eco, n, p, k), Pkg: zzhPkg, Func: "C06R", NoPanic: true, ScalarMergeOnly: true, Args: []ArgSpec{ArgStr(eco), ArgTmpl(t), ArgTmpl(p)}})
						}
					}
				}
				for n := nr + 1; n <= nr+2; n++ {
					if tier != "thorough" && n == nr+2 && (eco == "composer" || eco == "maven" || eco == "conan" || eco == "cargo" || eco == "npm") {
						continue // too many paths for the quick budget
					}
					if n > syntaxCapR(eco) {
						continue
					}
					for k, t := range splitIf(n >= 5, rawTemplate(syntaxClass, n), 9) {
						out = append(out, &Config{ID: fmt.Sprintf("C06/R/%s/syntax%d/%d", eco, n, k), Pkg: zzhPkg, Func: "C06R", NoPanic: true, ScalarMergeOnly: true, Args: []ArgSpec{ArgStr(eco), ArgTmpl(t), ArgTmpl(probe[0])}})
					}
				}
			}
			// token mode for range parsers: every sequence of up to three tokens drawn from the
			// ecosystem's comparators, one shorthand operator, its separators (words such as "and"
			// included) and a version, glued and space-joined: shapes like a trailing operator after a
			// keyword ("1.0.0 and >=") are longer than the raw alphabets reach
			for _, eco := range ecosystems {
				toks := rangeTokens(eco)
				var seqs [][]string
				for _, a := range toks {
					seqs = append(seqs, []string{a})
					for _, b := range toks {
						seqs = append(seqs, []string{a, b})
						for _, c := range toks {
							seqs = append(seqs, []string{a, b, c})
						}
					}
				}
				seen := map[string]bool{}
				for _, sq := range seqs {
					for _, glue := range []string{"", " "} {
						t := strings.Join(sq, glue)
						if seen[t] || strings.TrimSpace(stripClasses(t)) == "" && !strings.Contains(t, "{") {
							continue
						}
						seen[t] = true
						out = append(out, &Config{ID: fmt.Sprintf("C06/R/%s/tokens/%q", eco, t), Pkg: zzhPkg, Func: "C06R", NoPanic: true, ScalarMergeOnly: true, Args: []ArgSpec{ArgStr(eco), ArgTmpl(t), ArgTmpl("{d}.{d}.{d}")}})
					}
				}
			}
			// vers.Contains: raw tails after a valid prefix, raw heads, raw versions
			nt := 4
			if tier == "thorough" {
				nt = 5
			}
			for _, scheme := range []string{"npm", "deb", "pypi", "maven", "golang"} {
				for n := 0; n <= nt; n++ {
					if scheme == "maven" && n > 4 {
						continue // > 50000 paths inside the maven tokenizer
					}
					out = append(out, &Config{ID: fmt.Sprintf("C06/vers/%s/tail%d", scheme, n), Pkg: zzhPkg, Func: "C06Vers", NoPanic: true, ScalarMergeOnly: true,
						Args: []ArgSpec{ArgTmpl("vers:" + scheme + "/" + rawTemplate("A", n)), ArgTmpl("{d}.{d}.{d}")}})
				}
				// the same tails against a pre-release probe (adapters treat those specially)
				preProbe := map[string]string{"npm": "{d}.{d}.{d}-{l}", "deb": "{d}.{d}~{l}", "pypi": "{d}.{d}{[abc]}{d}", "maven": "{d}.{d}-{l}{l}", "golang": "v{d}.{d}.{d}-{l}"}[scheme]
				for n := 0; n <= 3; n++ {
					out = append(out, &Config{ID: fmt.Sprintf("C06/vers/%s/pretail%d", scheme, n), Pkg: zzhPkg, Func: "C06Vers", NoPanic: true, ScalarMergeOnly: true,
						Args: []ArgSpec{ArgTmpl("vers:" + scheme + "/" + rawTemplate("A", n)), ArgTmpl(preProbe)}})
				}
				for n := 0; n <= 3; n++ {
					out = append(out, &Config{ID: fmt.Sprintf("C06/vers/%s/version%d", scheme, n), Pkg: zzhPkg, Func: "C06Vers", NoPanic: true, ScalarMergeOnly: true,
						Args: []ArgSpec{ArgTmpl("vers:" + scheme + "/>={d}.{d}|<{d}.{d}.{d}"), ArgTmpl(rawTemplate("A", n))}})
				}
			}
			for n := 0; n <= nt+2; n++ {
				out = append(out, &Config{ID: fmt.Sprintf("C06/vers/head%d", n), Pkg: zzhPkg, Func: "C06Vers", NoPanic: true, ScalarMergeOnly: true,
					Args: []ArgSpec{ArgTmpl(rawTemplate("A", n) + ">=1.0|<2"), ArgStr("1.5")}})
				for k, t := range splitIf(n+2 >= 7, "vers:npm/"+rawTemplate("[0-9v.<>=!*| a\\-]", n+2), 6) {
					out = append(out, &Config{ID: fmt.Sprintf("C06/vers/syntax%d/%d", n+2, k), Pkg: zzhPkg, Func: "C06Vers", NoPanic: true, ScalarMergeOnly: true,
						Args: []ArgSpec{ArgTmpl(t), ArgStr("1.5.0")}})
				}
			}
			// CLI argument vectors (run never panics, exit status 0 or 1, a line is written)
			for n := 0; n <= 5; n++ {
				for _, nm := range []string{"npm", "vers", "{A}{A}{A}"} {
					for _, cm := range []string{"compare", "contains", "sort", "{A}{A}"} {
						if n < 2 && cm != "compare" {
							continue
						}
						for k, t := range splitIf(n >= 4, "{A}{A}{A}", 8) {
							out = append(out, &Config{ID: fmt.Sprintf("C06/cli/%d/%s/%s/%d", n, nm, cm, k), Pkg: cmdPkg, Func: "C15Argv", NoPanic: true, ScalarMergeOnly: true,
								Args: []ArgSpec{ArgInt(int64(n)), ArgTmpl(nm), ArgTmpl(cm), ArgTmpl(t), ArgTmpl("{A}{A}"), ArgTmpl("{A}")}})
						}
					}
				}
			}
			return out
		},
		Bounds: func(tier string) string {
			return "vers.Contains with raw ASCII tails <= 4/5 bytes after 5 scheme prefixes, raw heads <= 6/7, raw versions <= 3, tails <= 8/9 over a 19-symbol VERS alphabet; CLI argument vectors of 0-5 arguments with raw ASCII names, commands and arguments (2-3 bytes); all ASCII strings of length <= 5 (quick) / 7 (thorough) for version parsers and <= 4 / 5 for range parsers, plus strings up to 7 / 9 (versions; thorough: gem 7, maven 8) and 6 / 7 (ranges; thorough: gem and cargo 6) over a 25-symbol syntax alphabet; probes for Contains from 2 grammar templates; per entry point 8 templates with bytes >= 0x80 (all one- and two-byte strings without leads of 3-/4-byte sequences, symbolic two-byte runes inside versions, concrete 3- and 4-byte runes); version parsers also with a well-formed core followed by every ASCII tail of <= 3 bytes (4 over the syntax alphabet) or preceded by every ASCII head of <= 2 bytes; range parsers also with every sequence of <= 3 tokens (comparators, a shorthand operator, separators incl. word separators, a version), glued and space-joined; symbolic 3-/4-byte sequences, the quadratic time bound and long inputs are outside the claim"
		},
		MaxPaths: 3000000,
	})
}
