package main

import (
	"fmt"
	"strings"
)

func rawTemplate(class string, n int) string { return strings.Repeat("{"+class+"}", n) }

// syntaxAlphabet: the syntax-relevant 16+ symbol alphabet per ecosystem (second C06 pass).
const syntaxClass = "[019axv.\\-+~^_:, |<>=!*\\[\\]()]"

func init() {
	registerCheck(&CheckDef{
		ID:    "C06",
		Title: "NewVersion / NewVersionRange / vers.Contains never panic, always terminate within the unwinding bound, and return value xor error; Compare, String, Contains on accepted values do not panic",
		Pkgs:  []string{zzhPkg},
		Rule:  "raw mode: every byte of the input string is symbolic (ASCII); one configuration per entry point x ecosystem x length; the engine reports any Go panic or unwinding failure on a feasible path",
		Gen: func(tier string) []*Config {
			var out []*Config
			nv, nr, ns := 5, 4, 7
			if tier == "thorough" {
				nv, nr, ns = 7, 5, 9
			}
			for _, eco := range ecosystems {
				for n := 0; n <= nv; n++ {
					out = append(out, &Config{ID: fmt.Sprintf("C06/V/%s/ascii%d", eco, n), Pkg: zzhPkg, Func: "C06V", NoPanic: true, ScalarMergeOnly: true, Args: []ArgSpec{ArgStr(eco), ArgTmpl(rawTemplate("A", n))}})
				}
				for n := nv + 1; n <= ns; n++ {
					out = append(out, &Config{ID: fmt.Sprintf("C06/V/%s/syntax%d", eco, n), Pkg: zzhPkg, Func: "C06V", NoPanic: true, ScalarMergeOnly: true, Args: []ArgSpec{ArgStr(eco), ArgTmpl(rawTemplate(syntaxClass, n))}})
				}
				probe := thin(versionTemplates(eco, "s"), 2)
				for n := 0; n <= nr; n++ {
					for _, p := range probe {
						out = append(out, &Config{ID: fmt.Sprintf("C06/R/%s/ascii%d/%s", eco, n, p), Pkg: zzhPkg, Func: "C06R", NoPanic: true, ScalarMergeOnly: true, Args: []ArgSpec{ArgStr(eco), ArgTmpl(rawTemplate("A", n)), ArgTmpl(p)}})
					}
				}
				for n := nr + 1; n <= nr+2; n++ {
					out = append(out, &Config{ID: fmt.Sprintf("C06/R/%s/syntax%d", eco, n), Pkg: zzhPkg, Func: "C06R", NoPanic: true, ScalarMergeOnly: true, Args: []ArgSpec{ArgStr(eco), ArgTmpl(rawTemplate(syntaxClass, n)), ArgTmpl(probe[0])}})
				}
			}
			return out
		},
		Bounds: func(tier string) string {
			return "all ASCII strings of length <= 5 (quick) / 7 (thorough) for version parsers and <= 4 / 5 for range parsers, plus strings up to 7 / 9 (versions) and 6 / 7 (ranges) over a 27-symbol syntax alphabet; probes for Contains from 2 grammar templates; bytes >= 0x80, the quadratic time bound and long inputs are outside the claim"
		},
		MaxPaths: 3000000,
	})
}
