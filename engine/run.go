package main

// One configuration = one harness function + one binding of its parameters (templates or
// concrete values). runConfig explores every path of the harness and discharges its assertions.

import (
	"fmt"
	"strconv"
	"os"
	"runtime/debug"
	"math/big"
	"sort"
	"strings"
	"time"

	"golang.org/x/tools/go/ssa"
)

type ArgSpec struct {
	Kind string `json:"kind"` // "str", "tmpl", "int", "symint", "bool"
	S    string `json:"s,omitempty"`
	I    int64  `json:"i,omitempty"`
	Lo   int64  `json:"lo,omitempty"`
	Hi   int64  `json:"hi,omitempty"`
	B    bool   `json:"b,omitempty"`
}

func ArgStr(s string) ArgSpec  { return ArgSpec{Kind: "str", S: s} }
func ArgTmpl(s string) ArgSpec { return ArgSpec{Kind: "tmpl", S: s} }
func ArgInt(i int64) ArgSpec   { return ArgSpec{Kind: "int", I: i} }
func ArgBool(b bool) ArgSpec   { return ArgSpec{Kind: "bool", B: b} }
func ArgSym(lo, hi int64) ArgSpec {
	return ArgSpec{Kind: "symint", Lo: lo, Hi: hi}
}

type Config struct {
	ID      string    `json:"id"`
	Pkg     string    `json:"pkg"`
	Func    string    `json:"func"`
	Args    []ArgSpec `json:"args"`
	Active  []string  `json:"active,omitempty"` // active known-finding ids
	NoPanic bool      `json:"nopanic,omitempty"` // reachable Go panics are violations
	Monitor bool      `json:"monitor,omitempty"` // C19 write/nondeterminism monitor
	ScalarMergeOnly bool `json:"scalar_merge_only,omitempty"` // do not merge calls returning pointers/slices/structs
}

type Witness struct {
	Config  string   `json:"config"`
	Pkg     string   `json:"pkg"`
	Func    string   `json:"func"`
	Args    []string `json:"args"` // concrete argument values, Go-quoted for strings
	Kind    string   `json:"kind"` // "violation", "reach", "panic", "sharedwrite", "syncwrite", "nondet", "unwind"
	Msg     string   `json:"msg"`
	Active  []string `json:"active,omitempty"`
	Replay  string   `json:"replay,omitempty"` // filled by native replay
	Confirm bool     `json:"confirmed"`
}

type Inconclusive struct {
	Config string `json:"config"`
	Reason string `json:"reason"`
}

type Result struct {
	Config       *Config
	Paths        int64
	Asserts      int64 // assertion instances discharged by the solver
	TrivAsserts  int64 // assertion instances decided without the solver
	Violations   []Witness
	Reach        *Witness
	Vacuous      bool
	Inconcl      []Inconclusive
	Stats        Stats
	SolverQ      int
	SolverUnsat  int
	SolverSat    int
	SolverUnk    int
	SolverTime   time.Duration
	Wall         time.Duration
	Funcs        map[string]int64
	Natives      map[string]int64
	Notes        map[string]int
	InputsCover  string
	TemplateSize *big.Int
}

var traceOn = os.Getenv("VX_TRACE") != ""
var traceOn2 = os.Getenv("VX_TRACE") == "2" || os.Getenv("VX_TRACE") == "3"
var traceOn3 = os.Getenv("VX_TRACE") == "3"

type runState struct {
	cfg         *Config
	inputs      []*Term   // all input variables
	argVals     []Value   // harness arguments
	argVars     [][]*Term // per argument: its variables (bytes of a template, or the int var)
	res         *Result
	epochStamp  int64
	active      map[string]bool
	stop        bool
	maxViol     int
	assertsSeen int
	pending     []pendingAssert
	syncWrites  int
}

func (rs *runState) sharedWrite(in *Interp, what string, stamp int64) {
	if !rs.cfg.Monitor {
		return
	}
	if in.syncDepth > 0 {
		// synchronised write: a candidate for the race detector only; the path goes on
		if rs.syncWrites < 2 {
			rs.syncWrites++
			in.reportIfFeasible(rs, "syncwrite", "write under a lock or through an atomic operation to memory shared across API calls: "+what, true)
		}
		return
	}
	panic(pathEnd{kind: endViolation, msg: "write to memory shared across API calls: " + what, site: "sharedwrite"})
}

func (rs *runState) nondet(in *Interp, what string) {
	if !rs.cfg.Monitor {
		return
	}
	panic(pathEnd{kind: endViolation, msg: "nondeterminism source: " + what, site: "nondet"})
}

// ---------------------------------------------------------------------------------------------
// templates

var classSets = map[string]ByteSet{}

func init() {
	add := func(name string, f func(c int) bool) {
		var s ByteSet
		for c := 0; c < 256; c++ {
			if f(c) {
				s.Add(c)
			}
		}
		classSets[name] = s
	}
	isD := func(c int) bool { return c >= '0' && c <= '9' }
	isL := func(c int) bool { return c >= 'a' && c <= 'z' }
	isU := func(c int) bool { return c >= 'A' && c <= 'Z' }
	add("d", isD)
	add("D", func(c int) bool { return c >= '1' && c <= '9' })
	add("l", isL)
	add("u", isU)
	add("a", func(c int) bool { return isL(c) || isU(c) })
	add("n", func(c int) bool { return isL(c) || isU(c) || isD(c) })
	add("i", func(c int) bool { return isL(c) || isU(c) || isD(c) || c == '-' })
	add("h", func(c int) bool { return isD(c) || (c >= 'a' && c <= 'f') })
	add("w", func(c int) bool { return c == ' ' || c == '\t' || c == '\r' || c == '\n' })
	add("A", func(c int) bool { return c < 128 })
	add("P", func(c int) bool { return c >= 0x20 && c < 0x7f })
	add("B", func(c int) bool { return true })
}

type tmplPos struct {
	lit   bool
	b     byte
	set   ByteSet
	label string
}

// parseTemplate: literal bytes, {c} for a named class, {[...]} for an explicit set with ranges
// and a leading ^ for negation within ASCII; "\{" escapes a brace.
func parseTemplate(t string) ([]tmplPos, error) {
	var out []tmplPos
	for i := 0; i < len(t); i++ {
		c := t[i]
		if c == '\\' && i+1 < len(t) {
			i++
			out = append(out, tmplPos{lit: true, b: t[i]})
			continue
		}
		if c != '{' {
			out = append(out, tmplPos{lit: true, b: c})
			continue
		}
		j := strings.IndexByte(t[i:], '}')
		if j < 0 {
			return nil, fmt.Errorf("unterminated class in template %q", t)
		}
		body := t[i+1 : i+j]
		if strings.HasPrefix(body, "[") {
			// the set may itself contain '}' only escaped; find matching "]}"
			k := strings.Index(t[i:], "]}")
			if k < 0 {
				return nil, fmt.Errorf("unterminated set in template %q", t)
			}
			body = t[i+2 : i+k]
			j = k + 1
			set, err := parseSet(body)
			if err != nil {
				return nil, err
			}
			out = append(out, tmplPos{set: set, label: "[" + body + "]"})
		} else {
			set, ok := classSets[body]
			if !ok {
				return nil, fmt.Errorf("unknown class {%s} in template %q", body, t)
			}
			out = append(out, tmplPos{set: set, label: body})
		}
		i += j
	}
	return out, nil
}

func parseSet(body string) (ByteSet, error) {
	var s ByteSet
	neg := false
	if strings.HasPrefix(body, "^") {
		neg = true
		body = body[1:]
	}
	bs := []byte(body)
	// one (possibly escaped) member starting at i: \t \n \r \0 \xHH, any other escaped byte stands for itself
	next := func(i int) (int, int) {
		c := int(bs[i])
		if c != '\\' || i+1 >= len(bs) {
			return c, i + 1
		}
		i++
		switch bs[i] {
		case 't':
			return '\t', i + 1
		case 'n':
			return '\n', i + 1
		case 'r':
			return '\r', i + 1
		case '0':
			return 0, i + 1
		case 'x':
			if i+2 < len(bs) {
				if v, err := strconv.ParseUint(string(bs[i+1:i+3]), 16, 8); err == nil {
					return int(v), i + 3
				}
			}
		}
		return int(bs[i]), i + 1
	}
	for i := 0; i < len(bs); {
		c, ni := next(i)
		if ni+1 < len(bs) && bs[ni] == '-' {
			hi, nj := next(ni + 1)
			for x := c; x <= hi; x++ {
				s.Add(x)
			}
			i = nj
			continue
		}
		s.Add(c)
		i = ni
	}
	if neg {
		s = s.Not().And(classSets["A"])
	}
	if s.Empty() {
		return s, fmt.Errorf("empty set [%s]", body)
	}
	return s, nil
}

func templateSize(t string) *big.Int {
	pos, err := parseTemplate(t)
	n := big.NewInt(1)
	if err != nil {
		return n
	}
	for _, p := range pos {
		if !p.lit {
			n.Mul(n, big.NewInt(int64(p.set.Count())))
		}
	}
	return n
}

// ---------------------------------------------------------------------------------------------

func (in *Interp) bindArgs(cfg *Config, rs *runState) error {
	tb := in.tb
	size := big.NewInt(1)
	for ai, a := range cfg.Args {
		switch a.Kind {
		case "str":
			rs.argVals = append(rs.argVals, in.mkStr(a.S))
			rs.argVars = append(rs.argVars, nil)
		case "int":
			rs.argVals = append(rs.argVals, tb.Int(a.I))
			rs.argVars = append(rs.argVars, nil)
		case "bool":
			rs.argVals = append(rs.argVals, tb.Bool(a.B))
			rs.argVars = append(rs.argVars, nil)
		case "symint":
			v := tb.Var(fmt.Sprintf("n%d", ai), big.NewInt(a.Lo), big.NewInt(a.Hi))
			rs.argVals = append(rs.argVals, v)
			rs.argVars = append(rs.argVars, []*Term{v})
			rs.inputs = append(rs.inputs, v)
			size.Mul(size, big.NewInt(a.Hi-a.Lo+1))
		case "tmpl":
			pos, err := parseTemplate(a.S)
			if err != nil {
				return err
			}
			bytes := make([]*Term, len(pos))
			var vars []*Term
			for i, p := range pos {
				if p.lit {
					bytes[i] = tb.Int(int64(p.b))
					vars = append(vars, nil)
					continue
				}
				if v, ok := p.set.Single(); ok {
					bytes[i] = tb.Int(int64(v))
					vars = append(vars, nil)
					continue
				}
				v := tb.Var(fmt.Sprintf("a%d_%d", ai, i), big.NewInt(int64(p.set.Min())), big.NewInt(int64(p.set.Max())))
				full := rangeSet(p.set.Min(), p.set.Max())
				if full != p.set {
					in.side = append(in.side, tb.mk(&Term{op: OInSet, sort: SBool, a: v, set: &p.set}, tkey{op: OInSet, a: v.id, extra: "tmpl"}))
				}
				in.baseDoms[v] = p.set
				in.doms[v] = p.set
				bytes[i] = v
				vars = append(vars, v)
				rs.inputs = append(rs.inputs, v)
				size.Mul(size, big.NewInt(int64(p.set.Count())))
			}
			rs.argVals = append(rs.argVals, Str{bytes})
			rs.argVars = append(rs.argVars, vars)
		default:
			return fmt.Errorf("unknown arg kind %q", a.Kind)
		}
	}
	rs.res.TemplateSize = size
	return nil
}

// concreteArgs renders the harness arguments under a model.
func (rs *runState) concreteArgs(model map[*Term]*big.Int) []string {
	out := make([]string, len(rs.cfg.Args))
	for i, a := range rs.cfg.Args {
		switch a.Kind {
		case "str":
			out[i] = fmt.Sprintf("%q", a.S)
		case "int":
			out[i] = fmt.Sprint(a.I)
		case "bool":
			out[i] = fmt.Sprint(a.B)
		case "symint":
			v := rs.argVars[i][0]
			if m, ok := model[v]; ok {
				out[i] = m.String()
			} else {
				out[i] = v.lo.String()
			}
		case "tmpl":
			s := rs.argVals[i].(Str)
			b := make([]byte, len(s.B))
			for j, t := range s.B {
				if c, ok := t.Int64(); ok {
					b[j] = byte(c)
				} else if m, ok := model[t]; ok {
					b[j] = byte(m.Int64())
				} else {
					b[j] = byte(t.lo.Int64())
				}
			}
			out[i] = fmt.Sprintf("%q", string(b))
		}
	}
	return out
}

func (in *Interp) resetForConfig() {
	in.tb = NewTB()
	in.lits = map[int32]bool{}
	in.litTrail = nil
	in.doms = map[*Term]ByteSet{}
	in.domTrail = nil
	in.baseDoms = map[*Term]ByteSet{}
	in.side = nil
	in.fmtCache = map[string][]*Term{}
	in.knowGen++
	in.evalGen = nil
	in.evalVal = nil
	in.memo = map[string]*memoEntry{}
	in.runeBounds = nil
	in.noMerge = map[*ssa.Function]string{}
	in.stats = Stats{}
	in.funcsEntered = map[*ssa.Function]int64{}
	in.nativesUsed = map[string]int64{}
	in.notes = map[string]int{}
	// globals hold terms of the previous builder: re-initialise them
	in.globals = map[*ssa.Global]*Value{}
	in.initDone = map[*ssa.Package]bool{}
	in.globalTrail = nil
	in.stamp = 0
	in.globalStampMax = 0
	in.fresh = 0
}

func (in *Interp) eagerInit() {
	var paths []string
	for path := range in.P.pkgs {
		if strings.HasPrefix(path, in.P.modPath) || path == "strings" || path == "strconv" || path == "unicode/utf8" || path == "slices" || path == "cmp" || path == "math/bits" || strings.HasPrefix(path, "golang.org/x/mod/") {
			paths = append(paths, path)
		}
	}
	sort.Strings(paths)
	for _, path := range paths {
		in.ensureInit(in.P.pkgs[path])
	}
	in.globalStampMax = in.stamp
}

// RunConfig explores one configuration completely.
func (in *Interp) RunConfig(cfg *Config, maxPaths int64, deadline time.Time) *Result {
	t0 := time.Now()
	in.resetForConfig()
	in.solver.Reset(in.tb)
	res := &Result{Config: cfg}
	rs := &runState{cfg: cfg, res: res, active: map[string]bool{}, maxViol: 3}
	for _, a := range cfg.Active {
		rs.active[a] = true
	}
	q0, u0, s0, k0, st0 := in.solver.Queries, in.solver.Unsat, in.solver.Sat, in.solver.Unknown, in.solver.Time
	finish := func() *Result {
		res.Stats = in.stats
		res.SolverQ = in.solver.Queries - q0
		res.SolverUnsat = in.solver.Unsat - u0
		res.SolverSat = in.solver.Sat - s0
		res.SolverUnk = in.solver.Unknown - k0
		res.SolverTime = in.solver.Time - st0
		res.Wall = time.Since(t0)
		res.Funcs = map[string]int64{}
		for f, n := range in.funcsEntered {
			res.Funcs[f.String()] = n
		}
		res.Natives = in.nativesUsed
		res.Notes = in.notes
		if res.Reach == nil && len(res.Violations) == 0 && len(res.Inconcl) == 0 {
			res.Vacuous = true
		}
		return res
	}
	fn := in.P.Func(cfg.Pkg, cfg.Func)
	if fn == nil {
		res.Inconcl = append(res.Inconcl, Inconclusive{cfg.ID, "harness function not found: " + cfg.Pkg + "." + cfg.Func})
		return finish()
	}
	in.run = nil
	in.eagerInit()
	if err := in.bindArgs(cfg, rs); err != nil {
		res.Inconcl = append(res.Inconcl, Inconclusive{cfg.ID, err.Error()})
		return finish()
	}
	if len(fn.Params) != len(rs.argVals) {
		res.Inconcl = append(res.Inconcl, Inconclusive{cfg.ID, fmt.Sprintf("harness %s takes %d parameters, %d given", cfg.Func, len(fn.Params), len(rs.argVals))})
		return finish()
	}
	in.run = rs
	in.deadline = deadline
	root := &dnode{}
	baseLit, baseDom := in.litMark(), in.domMark()
	for !root.done && !rs.stop {
		if res.Paths >= maxPaths {
			res.Inconcl = append(res.Inconcl, Inconclusive{cfg.ID, fmt.Sprintf("path budget %d exhausted", maxPaths)})
			break
		}
		if !deadline.IsZero() && time.Now().After(deadline) {
			res.Inconcl = append(res.Inconcl, Inconclusive{cfg.ID, "time budget exhausted"})
			break
		}
		in.undoTo(baseLit, baseDom)
		ctx := &Ctx{root: root, cur: root, fn: cfg.Func}
		in.ctx = ctx
		in.depth = 0
		in.callStack = in.callStack[:0]
		rs.epochStamp = 0
		res.Paths++
		var end pathEnd
		func() {
			defer func() {
				if r := recover(); r != nil {
					switch e := r.(type) {
					case pathEnd:
						end = e
					case mergeAbort:
						end = pathEnd{kind: endUnsupported, msg: "merge abort escaped: " + e.why}
					default:
						fmt.Fprintf(os.Stderr, "ENGINE PANIC: %v\n%s\nSSA stack:\n", r, debug.Stack())
						for _, f := range in.callStack {
							fmt.Fprintf(os.Stderr, "  %s\n", f)
						}
						panic(r)
					}
				}
			}()
			args := make([]Value, len(rs.argVals))
			copy(args, rs.argVals)
			in.syncDepth = 0
			in.syncMaps = nil
			in.syncPools = nil
			rs.syncWrites = 0
			in.callFunction(fn, args, nil)
			end = pathEnd{kind: endDone}
		}()
		// undo writes to globals
		for i := len(in.globalTrail) - 1; i >= 0; i-- {
			*in.globalTrail[i].p = in.globalTrail[i].old
		}
		in.globalTrail = in.globalTrail[:0]
		if traceOn {
			fmt.Fprintf(os.Stderr, "PATH %d end=%s msg=%s pc=%d\n", res.Paths, end.kind, end.msg, len(ctx.pc))
			if traceOn2 {
				for _, c := range ctx.pc {
					fmt.Fprintf(os.Stderr, "    %s\n", c)
				}
			}
		}
		in.flushAsserts(rs, ctx.pc)
		in.handleEnd(rs, end)
		markDone(ctx.cur)
		// free explored subtrees
		if ctx.cur.parent != nil {
			for p := ctx.cur.parent; p != nil && p.done; p = p.parent {
				p.kids = nil
			}
		}
	}
	in.run = nil
	return finish()
}

func (in *Interp) handleEnd(rs *runState, end pathEnd) {
	res := rs.res
	switch end.kind {
	case endDone, endAssume, endInfeasible:
		return
	case endViolation:
		if end.site == "sharedwrite" || end.site == "nondet" {
			in.reportIfFeasible(rs, end.site, end.msg, true)
		}
		return
	case endPanic:
		in.reportIfFeasible(rs, "panic", end.msg, rs.cfg.NoPanic)
	case endUnwind:
		in.reportIfFeasible(rs, "unwind", end.msg, false)
	case endUnsupported:
		pc := in.fullPC()
		v, _, _ := in.solver.Check(pc, in.side, nil)
		if v != VUnsat {
			res.Inconcl = append(res.Inconcl, Inconclusive{rs.cfg.ID, "unsupported: " + end.msg})
		}
	}
}

func (in *Interp) reportIfFeasible(rs *runState, kind, msg string, isViolation bool) {
	pc := in.fullPC()
	v, model, note := in.solver.Check(pc, in.side, rs.inputs)
	switch v {
	case VUnsat:
		return
	case VUnknown:
		rs.res.Inconcl = append(rs.res.Inconcl, Inconclusive{rs.cfg.ID, fmt.Sprintf("%s (%s) with undecided feasibility: %s", kind, msg, note)})
		return
	}
	w := Witness{Config: rs.cfg.ID, Pkg: rs.cfg.Pkg, Func: rs.cfg.Func, Args: rs.concreteArgs(model), Kind: kind, Msg: msg, Active: rs.cfg.Active}
	if isViolation {
		rs.res.Violations = append(rs.res.Violations, w)
		if len(rs.res.Violations) >= rs.maxViol {
			rs.stop = true
		}
	} else {
		rs.res.Inconcl = append(rs.res.Inconcl, Inconclusive{rs.cfg.ID, fmt.Sprintf("%s: %s (input %v)", kind, msg, w.Args)})
	}
}

// ---------------------------------------------------------------------------------------------
// vv natives

func (in *Interp) requireTop(what string) {
	if in.ctx.nested {
		panic(mergeAbort{ctx: in.ctx, why: what + " inside merged call"})
	}
}

func natAssume(in *Interp, fn *ssa.Function, args []Value) Value {
	in.requireTop("vv.Assume")
	in.assume(args[0].(*Term))
	return nil
}

func natEpoch(in *Interp, fn *ssa.Function, args []Value) Value {
	in.requireTop("vv.Epoch")
	if in.run != nil {
		in.run.epochStamp = in.stamp
	}
	return nil
}

// vv.Reached(): the inputs were accepted; counts as reaching the property for the vacuity guard.
func natReached(in *Interp, fn *ssa.Function, args []Value) Value {
	in.requireTop("vv.Reached")
	rs := in.run
	if rs == nil || rs.res.Reach != nil {
		return nil
	}
	v, model, _ := in.solver.Check(in.fullPC(), in.side, rs.inputs)
	if v == VUnsat {
		panic(pathEnd{kind: endInfeasible})
	}
	if v == VSat {
		rs.res.Reach = &Witness{Config: rs.cfg.ID, Pkg: rs.cfg.Pkg, Func: rs.cfg.Func, Args: rs.concreteArgs(model), Kind: "reach", Msg: "inputs accepted", Active: rs.cfg.Active}
	}
	return nil
}

func natKnown(in *Interp, fn *ssa.Function, args []Value) Value {
	id, ok := args[0].(Str).Concrete()
	if !ok {
		unsup("vv.Known with symbolic id")
	}
	if in.run != nil && in.run.active[id] {
		return args[1]
	}
	return in.tb.False
}

type pendingAssert struct {
	cond  *Term
	msg   string
	pcLen int
}

func natAssert(in *Interp, fn *ssa.Function, args []Value) Value {
	in.requireTop("vv.Assert")
	rs := in.run
	cond := args[0].(*Term)
	msg, _ := args[1].(Str).Concrete()
	if rs == nil {
		return nil
	}
	rs.assertsSeen++
	// reachability witness (vacuity guard): once per configuration
	if rs.res.Reach == nil {
		v, model, _ := in.solver.Check(in.fullPC(), in.side, rs.inputs)
		if v == VUnsat {
			panic(pathEnd{kind: endInfeasible})
		}
		if v == VSat {
			rs.res.Reach = &Witness{Config: rs.cfg.ID, Pkg: rs.cfg.Pkg, Func: rs.cfg.Func, Args: rs.concreteArgs(model), Kind: "reach", Msg: msg, Active: rs.cfg.Active}
		}
	}
	st := in.evalLit(cond)
	if st > 0 {
		rs.res.TrivAsserts++
		return nil
	}
	rs.pending = append(rs.pending, pendingAssert{cond, msg, len(in.ctx.pc)})
	if st < 0 {
		panic(pathEnd{kind: endViolation, msg: msg})
	}
	// assert-then-assume: the continuation of the path takes the condition for granted; the
	// obligation itself is discharged by flushAsserts at the end of the path
	in.assume(cond)
	return nil
}

// flushAsserts discharges all assertions of the finished path with one query:
// pc[:first] ∧ OR_j ( pc[first:at_j] ∧ ¬cond_j ).
func (in *Interp) flushAsserts(rs *runState, pc []*Term) {
	if len(rs.pending) == 0 {
		return
	}
	pend := rs.pending
	rs.pending = nil
	tb := in.tb
	first := pend[0].pcLen
	disj := tb.False
	for _, p := range pend {
		c := tb.Not(p.cond)
		for k := p.pcLen - 1; k >= first; k-- {
			c = tb.And(pc[k], c)
		}
		disj = tb.Or(disj, c)
	}
	q := append(append([]*Term{}, pc[:first]...), disj)
	v, model, note := in.solver.Check(q, in.side, rs.inputs)
	rs.res.Asserts += int64(len(pend))
	switch v {
	case VUnsat:
		return
	case VSat:
		// which assertion fails under the model?
		memo := map[*Term]*big.Int{}
		msg := pend[len(pend)-1].msg
		for _, p := range pend {
			ok := true
			for k := first; k < p.pcLen; k++ {
				if evalBig(pc[k], model, memo).Sign() == 0 {
					ok = false
					break
				}
			}
			if ok && evalBig(p.cond, model, memo).Sign() == 0 {
				msg = p.msg
				break
			}
		}
		w := Witness{Config: rs.cfg.ID, Pkg: rs.cfg.Pkg, Func: rs.cfg.Func, Args: rs.concreteArgs(model), Kind: "violation", Msg: msg, Active: rs.cfg.Active}
		rs.res.Violations = append(rs.res.Violations, w)
		if len(rs.res.Violations) >= rs.maxViol {
			rs.stop = true
		}
	default:
		rs.res.Inconcl = append(rs.res.Inconcl, Inconclusive{rs.cfg.ID, "solver unknown on assertions of a path (" + pend[0].msg + " ...): " + note})
	}
}
