package main

// Exploration contexts: DFS over symbolic branches by re-execution, literal table, byte domains,
// and merge-at-return (nested contexts whose scalar results are folded into ite terms).

import (
	"fmt"
	"os"
	"go/types"
	"math/big"
	"strings"
)

type endKind int

const (
	endDone endKind = iota
	endAssume
	endViolation
	endPanic
	endUnsupported
	endUnwind
	endInfeasible
)

func (k endKind) String() string {
	return [...]string{"done", "assume", "violation", "panic", "unsupported", "unwind", "infeasible"}[k]
}

// pathEnd is thrown (Go panic) to unwind the interpreter to the innermost exploration context.
type pathEnd struct {
	kind endKind
	msg  string
	site string
}

// mergeAbort is thrown when a nested (merged) call turns out to have externally visible effects.
type mergeAbort struct {
	ctx *Ctx
	why string
}

type dnode struct {
	parent *dnode
	conds  []*Term
	kids   []*dnode
	done   bool
	out    *outcome
}

type outcome struct {
	kind endKind
	val  Value
	msg  string
	site string
}

type Ctx struct {
	parent     *Ctx
	root       *dnode
	cur        *dnode
	pc         []*Term
	entryStamp int64
	nested     bool
	fn         string
	paths      int
}

type litUndo struct {
	id  int32
	had bool
	old bool
}
type domUndo struct {
	v   *Term
	had bool
	old ByteSet
}

func (in *Interp) litMark() int { return len(in.litTrail) }
func (in *Interp) domMark() int { return len(in.domTrail) }
func (in *Interp) undoTo(lm, dm int) {
	if len(in.litTrail) > lm || len(in.domTrail) > dm {
		in.knowGen++
	}
	for len(in.litTrail) > lm {
		u := in.litTrail[len(in.litTrail)-1]
		in.litTrail = in.litTrail[:len(in.litTrail)-1]
		if u.had {
			in.lits[u.id] = u.old
		} else {
			delete(in.lits, u.id)
		}
	}
	for len(in.domTrail) > dm {
		u := in.domTrail[len(in.domTrail)-1]
		in.domTrail = in.domTrail[:len(in.domTrail)-1]
		if u.had {
			in.doms[u.v] = u.old
		} else {
			delete(in.doms, u.v)
		}
	}
}

func (in *Interp) setLit(id int32, val bool) {
	old, had := in.lits[id]
	if had && old == val {
		return
	}
	in.knowGen++
	in.litTrail = append(in.litTrail, litUndo{id, had, old})
	in.lits[id] = val
}

func (in *Interp) setDom(v *Term, d ByteSet) {
	in.knowGen++
	old, had := in.doms[v]
	in.domTrail = append(in.domTrail, domUndo{v, had, old})
	in.doms[v] = d
}

// domOf returns the current byte domain of a variable, if it is a byte-ranged variable.
func (in *Interp) domOf(v *Term) (ByteSet, bool) {
	if d, ok := in.doms[v]; ok {
		return d, true
	}
	if isByteVar(v) {
		return rangeSet(int(v.lo.Int64()), int(v.hi.Int64())), true
	}
	return ByteSet{}, false
}

const enumSizeLimit = 400

// truthSet: for a term with exactly one free byte variable, the subset of its domain where t holds.
func (in *Interp) truthSet(t *Term) (tset ByteSet, dom ByteSet, ok bool) {
	if t.nfv != 1 || t.size > enumSizeLimit {
		return
	}
	v := t.fv
	d, has := in.domOf(v)
	if !has {
		return
	}
	if t.op == OInSet && t.a == v {
		return t.set.And(d), d, true
	}
	env := evalEnv{vals: map[*Term]int64{}, ok: true}
	if t.size > 16 {
		env.memo = map[*Term]int64{}
	}
	for b := 0; b < 256; b++ {
		if !d.Has(b) {
			continue
		}
		env.vals[v] = int64(b)
		if env.memo != nil {
			clear(env.memo)
		}
		r := env.eval(t)
		if !env.ok {
			return ByteSet{}, d, false
		}
		if r != 0 {
			tset.Add(b)
		}
	}
	return tset, d, true
}

// evalLit: 1 = known true, -1 = known false, 0 = unknown (on the current path).
func (in *Interp) evalLit(t *Term) int8 {
	if t.op == OConst {
		if t.val.Sign() != 0 {
			return 1
		}
		return -1
	}
	if v, ok := in.lits[t.id]; ok {
		if v {
			return 1
		}
		return -1
	}
	// memo per knowledge generation (terms are DAGs; without it shared subterms are re-evaluated)
	if t.size > 4 {
		id := int(t.id)
		if id < len(in.evalGen) && in.evalGen[id] == in.knowGen {
			return in.evalVal[id]
		}
		r := in.evalLit1(t)
		if id >= len(in.evalGen) {
			n := id*2 + 64
			g := make([]uint32, n)
			copy(g, in.evalGen)
			in.evalGen = g
			v := make([]int8, n)
			copy(v, in.evalVal)
			in.evalVal = v
		}
		in.evalGen[id] = in.knowGen
		in.evalVal[id] = r
		return r
	}
	return in.evalLit1(t)
}

func (in *Interp) evalLit1(t *Term) int8 {
	switch t.op {
	case ONot:
		return -in.evalLit(t.a)
	case OAnd:
		a := in.evalLit(t.a)
		if a < 0 {
			return -1
		}
		b := in.evalLit(t.b)
		if b < 0 {
			return -1
		}
		if a > 0 && b > 0 {
			return 1
		}
	case OOr:
		a := in.evalLit(t.a)
		if a > 0 {
			return 1
		}
		b := in.evalLit(t.b)
		if b > 0 {
			return 1
		}
		if a < 0 && b < 0 {
			return -1
		}
	case OIte:
		c := in.evalLit(t.a)
		if c > 0 {
			return in.evalLit(t.b)
		}
		if c < 0 {
			return in.evalLit(t.c)
		}
		x, y := in.evalLit(t.b), in.evalLit(t.c)
		if x == y {
			return x
		}
		return 0
	}
	if t.nfv == 1 {
		ts, d, ok := in.truthSet(t)
		if ok {
			if ts.Empty() {
				return -1
			}
			if ts == d {
				return 1
			}
		}
	}
	return 0
}

// assertLit records that t has value val on the current path.
func (in *Interp) assertLit(t *Term, val bool) {
	if t.op == OConst {
		return
	}
	in.setLit(t.id, val)
	switch t.op {
	case ONot:
		in.assertLit(t.a, !val)
		return
	case OAnd:
		if val {
			in.assertLit(t.a, true)
			in.assertLit(t.b, true)
		} else {
			// if one side is known true the other must be false
			if in.evalLit(t.a) > 0 {
				in.assertLit(t.b, false)
			} else if in.evalLit(t.b) > 0 {
				in.assertLit(t.a, false)
			}
		}
		return
	case OOr:
		if !val {
			in.assertLit(t.a, false)
			in.assertLit(t.b, false)
		} else {
			if in.evalLit(t.a) < 0 {
				in.assertLit(t.b, true)
			} else if in.evalLit(t.b) < 0 {
				in.assertLit(t.a, true)
			}
		}
		return
	}
	if t.nfv == 1 {
		ts, d, ok := in.truthSet(t)
		if ok {
			nd := ts
			if !val {
				nd = d.And(ts.Not())
			}
			if nd != d {
				in.setDom(t.fv, nd)
			}
		}
	}
}

// fork chooses among mutually exclusive, jointly exhaustive alternatives.
func (in *Interp) fork(conds []*Term) int {
	c := in.ctx
	node := c.cur
	// pruning is a deterministic function of the path prefix, so it is recomputed on re-execution
	alive := make([]int, 0, len(conds))
	for i, cd := range conds {
		st := in.evalLit(cd)
		if st > 0 {
			return i
		}
		if st == 0 {
			alive = append(alive, i)
		}
	}
	if len(alive) == 0 {
		panic(pathEnd{kind: endInfeasible})
	}
	if len(alive) == 1 {
		in.assertLit(conds[alive[0]], true)
		return alive[0]
	}
	if node.conds == nil {
		if in.forkFeasibility && !c.nested {
			alive = in.pruneBySolver(conds, alive)
			if len(alive) == 0 {
				node.conds = []*Term{}
				node.kids = []*dnode{}
				panic(pathEnd{kind: endInfeasible})
			}
		}
		node.conds = make([]*Term, len(conds))
		copy(node.conds, conds)
		node.kids = make([]*dnode, len(conds))
		for _, i := range alive {
			node.kids[i] = &dnode{parent: node}
		}
		in.stats.Forks++
		if traceForks > 0 {
			traceForks--
			fmt.Fprintf(os.Stderr, "FORK in %s depth=%d:", c.fn, len(c.pc))
			for _, i := range alive {
				fmt.Fprintf(os.Stderr, " [%s]", conds[i])
			}
			if len(in.callStack) > 0 {
				fmt.Fprintf(os.Stderr, " @ %s", in.callStack[len(in.callStack)-1])
			}
			fmt.Fprintln(os.Stderr)
		}
	}
	for i, k := range node.kids {
		if k != nil && !k.done {
			c.cur = k
			c.pc = append(c.pc, node.conds[i])
			in.assertLit(node.conds[i], true)
			return i
		}
	}
	panic("fork: no open alternative")
}

func (in *Interp) pruneBySolver(conds []*Term, alive []int) []int {
	var out []int
	pc := in.fullPC()
	for _, i := range alive {
		v, _, _ := in.solver.Check(append(append([]*Term{}, pc...), conds[i]), in.side, nil)
		if v != VUnsat {
			out = append(out, i)
		}
	}
	return out
}

func (in *Interp) branch(c *Term) bool {
	if c.op == OConst {
		return c.val.Sign() != 0
	}
	return in.fork([]*Term{c, in.tb.Not(c)}) == 0
}

// assume adds a literal to the path condition (no alternative is explored).
func (in *Interp) assume(c *Term) {
	st := in.evalLit(c)
	if st > 0 {
		return
	}
	if st < 0 {
		panic(pathEnd{kind: endAssume})
	}
	in.ctx.pc = append(in.ctx.pc, c)
	in.assertLit(c, true)
}

func (in *Interp) fullPC() []*Term {
	var out []*Term
	var rec func(c *Ctx)
	rec = func(c *Ctx) {
		if c == nil {
			return
		}
		rec(c.parent)
		out = append(out, c.pc...)
	}
	rec(in.ctx)
	return out
}

func markDone(n *dnode) {
	n.done = true
	for p := n.parent; p != nil; p = p.parent {
		for _, k := range p.kids {
			if k != nil && !k.done {
				return
			}
		}
		p.done = true
	}
}

// concretizeInt forks over the possible values of an integer term and returns the chosen one.
func (in *Interp) concretizeInt(t *Term, what string) int64 {
	if v, ok := t.Int64(); ok {
		return v
	}
	vals := in.possibleValues(t, 64)
	if vals == nil {
		panic(pathEnd{kind: endUnsupported, msg: "cannot concretize " + what + ": " + t.String()})
	}
	conds := make([]*Term, len(vals))
	for i, v := range vals {
		conds[i] = in.tb.Eq(t, in.tb.Int(v))
	}
	return vals[in.fork(conds)]
}

func (in *Interp) possibleValues(t *Term, limit int) []int64 {
	seen := map[int64]bool{}
	var out []int64
	if iteConstLeaves(t, 4096) > 0 {
		var rec func(x *Term) bool
		rec = func(x *Term) bool {
			if x.op == OIte {
				return rec(x.b) && rec(x.c)
			}
			v, ok := x.Int64()
			if !ok {
				return false
			}
			if !seen[v] {
				seen[v] = true
				out = append(out, v)
			}
			return len(out) <= limit
		}
		if rec(t) {
			return out
		}
		return nil
	}
	if t.nfv == 1 && t.size <= enumSizeLimit {
		d, ok := in.domOf(t.fv)
		if !ok {
			return nil
		}
		env := evalEnv{vals: map[*Term]int64{}, ok: true}
		for b := 0; b < 256; b++ {
			if !d.Has(b) {
				continue
			}
			env.vals[t.fv] = int64(b)
			r := env.eval(t)
			if !env.ok {
				return nil
			}
			if !seen[r] {
				seen[r] = true
				out = append(out, r)
				if len(out) > limit {
					return nil
				}
			}
		}
		return out
	}
	if t.lo != nil && t.hi != nil {
		w := new(big.Int).Sub(t.hi, t.lo)
		if w.IsInt64() && w.Int64() < int64(limit) && t.lo.IsInt64() {
			for v := t.lo.Int64(); v <= t.hi.Int64(); v++ {
				out = append(out, v)
			}
			return out
		}
	}
	return nil
}

// ---------------------------------------------------------------------------------------------
// merged (nested) calls

type mergeGroup struct {
	key  string
	cond *Term
	val  Value
	out  *outcome
}

// shapeKey describes the structure of a result value: two results with the same key differ only
// in scalar/byte terms and can be merged field by field. entry is the allocation stamp at the
// start of the nested call: younger objects are private to the call and are merged deeply, older
// ones are compared by identity. "?" anywhere means "cannot be merged".
func (in *Interp) shapeKey(v Value, entry int64, depth int) string {
	if depth > 12 {
		return "?"
	}
	switch x := v.(type) {
	case *Term:
		if x.sort == SBool {
			return "b"
		}
		return "i"
	case Str:
		return fmt.Sprintf("s%d", len(x.B))
	case Iface:
		if x.T == nil {
			return "nil"
		}
		if types.Implements(x.T, in.P.errIface) {
			// errors are opaque (message and fields of two errors of one group may differ), but their
			// identity is not: a sentinel that existed before the call (strconv.ErrRange, io.EOF, a
			// package-level errors.New) is compared with == or errors.Is by real code, and so is
			// the chain of wrapped errors
			switch e := x.V.(type) {
			case *ErrObj:
				if e.ID <= entry {
					return fmt.Sprintf("err#%d", e.ID)
				}
				if e.Wrap != nil && depth < 6 {
					return "errw(" + in.shapeKey(*e.Wrap, entry, depth+1) + ")"
				}
				return "err"
			case *Ptr:
				if depth < 6 {
					return "errp<" + x.T.String() + ":" + in.shapeKey(e, entry, depth+1) + ">"
				}
			}
			return "err"
		}
		return "I<" + x.T.String() + ":" + in.shapeKey(x.V, entry, depth+1) + ">"
	case Tuple:
		var sb strings.Builder
		sb.WriteString("(")
		for _, e := range x {
			sb.WriteString(in.shapeKey(e, entry, depth+1))
			sb.WriteString(",")
		}
		sb.WriteString(")")
		return sb.String()
	case Struct:
		var sb strings.Builder
		sb.WriteString("{")
		for _, e := range x {
			sb.WriteString(in.shapeKey(e, entry, depth+1))
			sb.WriteString(",")
		}
		sb.WriteString("}")
		return sb.String()
	case Array:
		var sb strings.Builder
		sb.WriteString("[")
		for _, e := range x {
			sb.WriteString(in.shapeKey(e, entry, depth+1))
			sb.WriteString(",")
		}
		sb.WriteString("]")
		return sb.String()
	case *Ptr:
		if x.P == nil {
			return "nilp"
		}
		if x.Stamp > entry {
			if _, isRx := (*x.P).(*RegexObj); isRx {
				return fmt.Sprintf("ext%p", x.P)
			}
			return "&" + in.shapeKey(*x.P, entry, depth+1)
		}
		return fmt.Sprintf("ext%p", x.P)
	case *Slice:
		if x.Nil {
			return "nils"
		}
		if x.Stamp > entry || x.Len == 0 {
			var sb strings.Builder
			fmt.Fprintf(&sb, "sl%d/%d[", x.Len, x.Cap)
			for i := 0; i < x.Len; i++ {
				sb.WriteString(in.shapeKey(x.Arr[x.Off+i], entry, depth+1))
				sb.WriteString(",")
			}
			sb.WriteString("]")
			return sb.String()
		}
		return fmt.Sprintf("extsl%p/%d/%d", x.Arr, x.Off, x.Len)
	case *Map:
		if x.Nil {
			return "nilm"
		}
		if x.Stamp > entry {
			return "?"
		}
		return fmt.Sprintf("extm%p", x)
	case *Closure:
		if x.Fn == nil && x.Builtin == nil {
			return "nilf"
		}
		if len(x.Env) == 0 && x.Fn != nil {
			return "fn:" + x.Fn.String()
		}
		return "?"
	case *ErrObj:
		return "err"
	case nil:
		return "void"
	case Float:
		return fmt.Sprintf("f%v", float64(x))
	}
	return "?"
}

// mergeVals builds ite(c, a, b) structurally for two values of identical shape.
func (in *Interp) mergeVals(c *Term, a, b Value) Value {
	if b == nil {
		return a
	}
	if a == nil {
		return b
	}
	switch x := a.(type) {
	case *Term:
		return in.tb.Ite(c, x, b.(*Term))
	case Str:
		y := b.(Str)
		out := make([]*Term, len(x.B))
		for i := range x.B {
			out[i] = in.tb.Ite(c, x.B[i], y.B[i])
		}
		return Str{out}
	case Tuple:
		y := b.(Tuple)
		out := make(Tuple, len(x))
		for i := range x {
			out[i] = in.mergeVals(c, x[i], y[i])
		}
		return out
	case Struct:
		y := b.(Struct)
		out := make(Struct, len(x))
		for i := range x {
			out[i] = in.mergeVals(c, x[i], y[i])
		}
		return out
	case Array:
		y := b.(Array)
		out := make(Array, len(x))
		for i := range x {
			out[i] = in.mergeVals(c, x[i], y[i])
		}
		return out
	case Iface:
		y := b.(Iface)
		if x.T == nil || types.Implements(x.T, in.P.errIface) {
			return a // nil or opaque error: either representative will do
		}
		return Iface{T: x.T, V: in.mergeVals(c, x.V, y.V)}
	case *Ptr:
		y := b.(*Ptr)
		if x.P == nil || x.P == y.P {
			return a
		}
		v := in.mergeVals(c, *x.P, *y.P)
		return &Ptr{P: &v, Stamp: in.newStamp(), Obj: x.Obj}
	case *Slice:
		y := b.(*Slice)
		if x.Nil {
			return a
		}
		if x.Len > 0 && len(x.Arr) > 0 && len(y.Arr) > 0 && &x.Arr[0] == &y.Arr[0] && x.Off == y.Off {
			return a
		}
		arr := make([]Value, x.Cap)
		for i := 0; i < x.Cap; i++ {
			if i < x.Len {
				arr[i] = in.mergeVals(c, x.Arr[x.Off+i], y.Arr[y.Off+i])
			} else if x.Off+i < len(x.Arr) {
				arr[i] = x.Arr[x.Off+i]
			}
		}
		return &Slice{Arr: arr, Len: x.Len, Cap: x.Cap, Stamp: in.newStamp()}
	case Float, *Map, *Closure, *ErrObj:
		return a
	}
	panic(fmt.Sprintf("mergeVals: unexpected value %T", a))
}

type bottomT struct{}

// foldGroup folds the decision tree for one group: returns (cond that the path is in the group,
// merged value over the group's paths; nil if the subtree has no path in the group).
func (in *Interp) foldGroup(n *dnode, key string, keys map[*dnode]string) (*Term, Value) {
	if n.conds == nil {
		if n.out != nil && keys[n] == key {
			return in.tb.True, n.out.val
		}
		return in.tb.False, nil
	}
	var cond *Term = nil
	var val Value
	first := true
	// alternatives are exhaustive: process from last to first so the last alive needs no guard
	for i := len(n.kids) - 1; i >= 0; i-- {
		k := n.kids[i]
		if k == nil {
			continue
		}
		kc, kv := in.foldGroup(k, key, keys)
		if first {
			cond, val = kc, kv
			first = false
			continue
		}
		cond = in.tb.Ite(n.conds[i], kc, cond)
		if kv != nil {
			if val == nil {
				val = kv
			} else {
				val = in.mergeVals(n.conds[i], kv, val)
			}
		}
	}
	if cond == nil {
		cond = in.tb.False
	}
	return cond, val
}

func collectLeaves(n *dnode, f func(*dnode)) {
	if n.conds == nil {
		f(n)
		return
	}
	for _, k := range n.kids {
		if k != nil {
			collectLeaves(k, f)
		}
	}
}

var traceForks = func() int {
	n := 0
	fmt.Sscan(os.Getenv("VX_TRACEFORKS"), &n)
	return n
}()
