package main

// Check driver: configuration enumeration, worker pool, native replay, known findings,
// evidence files and exit codes.

import (
	"encoding/json"
	"fmt"
	"math/big"
	"os"
	"path/filepath"
	"sort"
	"strings"
	"sync"
	"time"
)

// verifDir is the root of the verification tree: $VX_ROOT, else the parent of the directory that
// holds the executable (…/bin/vx), else /verif. Background runs from a snapshot use their own copy.
var verifDir = func() string {
	if d := os.Getenv("VX_ROOT"); d != "" {
		return d
	}
	if exe, err := os.Executable(); err == nil {
		d := filepath.Dir(filepath.Dir(exe))
		if _, err := os.Stat(filepath.Join(d, "harness")); err == nil {
			return d
		}
	}
	return "/verif"
}()

type CheckDef struct {
	ID         string
	Title      string
	Pkgs       []string                    // harness packages used (for replay)
	Gen        func(tier string) []*Config // configuration enumeration
	Bounds     func(tier string) string    // human-readable bounds
	Assume     []string                    // assumptions / trusted base
	Rule       string
	MaxPaths   int64
	CfgTimeout int // per-configuration time budget in seconds for the quick tier (0 = default)
}

var checks = map[string]*CheckDef{}

func registerCheck(c *CheckDef) { checks[c.ID] = c }

type KnownFinding struct {
	ID        string     `json:"id"`
	Property  string     `json:"property"`          // property whose check reports it
	AlsoIn    []string   `json:"also_in,omitempty"` // other properties whose checks exclude it too
	Status    string     `json:"status"`            // open | fixed
	Title     string     `json:"title"`
	Witness   ReplayCase `json:"witness"`                   // one concrete failing input (harness + arguments)
	Pkg       string     `json:"pkg"`                       // package of the witness harness
	Configs   []string   `json:"scope_configs,omitempty"`   // configuration-id globs skipped while the finding is active
	Predicate string     `json:"scope_predicate,omitempty"` // name of the vv.Known predicate in the harness (documentation)
	Note      string     `json:"note,omitempty"`
}

func globMatch(pat, s string) bool {
	// '*' matches any (possibly empty) substring
	parts := strings.Split(pat, "*")
	if len(parts) == 1 {
		return pat == s
	}
	if !strings.HasPrefix(s, parts[0]) {
		return false
	}
	s = s[len(parts[0]):]
	for i := 1; i < len(parts)-1; i++ {
		j := strings.Index(s, parts[i])
		if j < 0 {
			return false
		}
		s = s[j+len(parts[i]):]
	}
	return strings.HasSuffix(s, parts[len(parts)-1])
}

type KFFile struct {
	Findings []KnownFinding `json:"findings"`
	Fixed    []string       `json:"fixed"`
}

func loadKF() (*KFFile, error) {
	var kf KFFile
	data, err := os.ReadFile(filepath.Join(verifDir, "known_findings.json"))
	if err != nil {
		if os.IsNotExist(err) {
			return &kf, nil
		}
		return nil, err
	}
	if err := json.Unmarshal(data, &kf); err != nil {
		return nil, err
	}
	return &kf, nil
}

type Evidence struct {
	PropertyID  string                 `json:"property_id"`
	Tier        string                 `json:"tier"`
	Seed        int                    `json:"seed"`
	Level       string                 `json:"level"`
	Coverage    map[string]interface{} `json:"coverage"`
	Assumptions []string               `json:"assumptions"`
	WallS       float64                `json:"wall_s"`
	Violations  int                    `json:"violations"`
}

type checkOpts struct {
	tier       string
	workers    int
	strict     bool
	solver     string
	cross      string
	crossEvery int
	filter     string
	verbose    bool
	timeout    int
	limit      int
	cfgTimeout int
}

func runCheck(id string, o checkOpts) int {
	t0 := time.Now()
	cd := checks[id]
	if cd == nil {
		fmt.Fprintf(os.Stderr, "unknown check %s\n", id)
		return 2
	}
	seed := 0
	fmt.Sscan(os.Getenv("VERIF_SEED"), &seed)
	p, err := LoadProgram(harnessRoot, []string{"./..."}, nil)
	if err != nil {
		fmt.Fprintln(os.Stderr, "cannot load /repo:", err)
		return 2
	}
	loadS := time.Since(t0).Seconds()

	// known findings of this property: active iff the witness still fails natively
	kf, err := loadKF()
	if err != nil {
		fmt.Fprintln(os.Stderr, "known_findings.json:", err)
		return 2
	}
	var active []string
	var kfSeen []string
	byPkg := map[string][]ReplayCase{}
	kfByID := map[string]KnownFinding{}
	for _, f := range kf.Findings {
		rel := f.Property == id
		for _, p := range f.AlsoIn {
			if p == id {
				rel = true
			}
		}
		if !rel || f.Status != "open" {
			continue
		}
		c := f.Witness
		c.ID = f.ID
		c.Active = nil
		byPkg[f.Pkg] = append(byPkg[f.Pkg], c)
		kfByID[f.ID] = f
	}
	for pkg, cases := range byPkg {
		outs, err := p.Replay(pkg, cases, false)
		if err != nil {
			fmt.Fprintln(os.Stderr, "known-finding replay:", err)
			return 2
		}
		for _, c := range cases {
			o := outs[c.ID]
			if o.Outcome == "assert" || o.Outcome == "panic" || o.Outcome == "timeout" {
				active = append(active, c.ID)
				fmt.Printf("KNOWN-FINDING: property=%s %s [%s] witness %s(%s)\n", id, kfByID[c.ID].Title, c.ID, c.Func, strings.Join(c.Args, ", "))
				kfSeen = append(kfSeen, c.ID)
			} else {
				fmt.Printf("NOTE: known finding %s no longer reproduces (outcome %s); no exclusion applied\n", c.ID, o.Outcome)
			}
		}
	}
	sort.Strings(active)

	cfgs := cd.Gen(o.tier)
	if o.filter != "" {
		var f []*Config
		for _, c := range cfgs {
			if strings.Contains(c.ID, o.filter) {
				f = append(f, c)
			}
		}
		cfgs = f
	}
	// configurations inside the scope of an active known finding are not run
	excluded := 0
	{
		var keep []*Config
		for _, c := range cfgs {
			skip := false
			for _, a := range active {
				for _, g := range kfByID[a].Configs {
					if globMatch(g, c.ID) {
						skip = true
					}
				}
			}
			if skip {
				excluded++
			} else {
				keep = append(keep, c)
			}
		}
		cfgs = keep
	}
	if o.limit > 0 && len(cfgs) > o.limit {
		cfgs = cfgs[:o.limit]
	}
	for _, c := range cfgs {
		c.Active = active
	}
	// seed permutes work order only
	if seed != 0 {
		r := uint64(seed)*2862933555777941757 + 3037000493
		for i := len(cfgs) - 1; i > 0; i-- {
			r = r*6364136223846793005 + 1442695040888963407
			j := int((r >> 33) % uint64(i+1))
			cfgs[i], cfgs[j] = cfgs[j], cfgs[i]
		}
	}
	if cd.CfgTimeout > 0 && o.tier != "thorough" && o.cfgTimeout < cd.CfgTimeout {
		o.cfgTimeout = cd.CfgTimeout
	}
	maxPaths := cd.MaxPaths
	if maxPaths == 0 {
		maxPaths = 200000
	}

	results := make([]*Result, len(cfgs))
	var wg sync.WaitGroup
	jobs := make(chan int, len(cfgs))
	for i := range cfgs {
		jobs <- i
	}
	close(jobs)
	var mu sync.Mutex
	done := 0
	var engineErr error
	for w := 0; w < o.workers; w++ {
		wg.Add(1)
		go func() {
			defer wg.Done()
			in := NewInterp(p)
			s, err := newCheckSolver(o, in.tb)
			if err != nil {
				mu.Lock()
				engineErr = err
				mu.Unlock()
				return
			}
			in.solver = s
			defer func() { in.solver.Close() }()
			for i := range jobs {
				func() {
					defer func() {
						if r := recover(); r != nil {
							mu.Lock()
							results[i] = &Result{Config: cfgs[i], Inconcl: []Inconclusive{{cfgs[i].ID, fmt.Sprintf("engine error: %v", r)}}}
							mu.Unlock()
							// the interpreter state may be corrupt: start afresh
							in.solver.Close()
							in = NewInterp(p)
							ns, err := newCheckSolver(o, in.tb)
							if err == nil {
								in.solver = ns
							}
						}
					}()
					dl := time.Now().Add(time.Duration(o.cfgTimeout) * time.Second)
					r := in.RunConfig(cfgs[i], maxPaths, dl)
					if in.solver.dead {
						in.solver.Close()
						ns, err := newCheckSolver(o, in.tb)
						if err == nil {
							in.solver = ns
						}
					}
					mu.Lock()
					results[i] = r
					done++
					if o.verbose && done%200 == 0 {
						fmt.Fprintf(os.Stderr, "  %d/%d configs (%.0fs)\n", done, len(cfgs), time.Since(t0).Seconds())
					}
					mu.Unlock()
				}()
			}
		}()
	}
	wg.Wait()
	if engineErr != nil {
		fmt.Fprintln(os.Stderr, "engine:", engineErr)
		return 2
	}

	// aggregate
	var tot struct {
		paths, instrs, asserts, triv, mergedPaths int64
		q, unsat, sat, unk                        int
		solverS                                   float64
		vacuous, inconclCfgs                      int
	}
	funcs := map[string]int64{}
	natives := map[string]int64{}
	notes := map[string]int{}
	var inconcl []Inconclusive
	var violW, reachW []Witness
	inputs := new(big.Int)
	for _, r := range results {
		if r == nil {
			continue
		}
		tot.paths += r.Paths
		tot.instrs += r.Stats.Instrs
		tot.mergedPaths += r.Stats.MergedPaths
		tot.asserts += r.Asserts
		tot.triv += r.TrivAsserts
		tot.q += r.SolverQ
		tot.unsat += r.SolverUnsat
		tot.sat += r.SolverSat
		tot.unk += r.SolverUnk
		tot.solverS += r.SolverTime.Seconds()
		if r.Vacuous {
			tot.vacuous++
		}
		if len(r.Inconcl) > 0 {
			tot.inconclCfgs++
			inconcl = append(inconcl, r.Inconcl...)
		}
		for k, v := range r.Funcs {
			funcs[k] += v
		}
		for k, v := range r.Natives {
			natives[k] += v
		}
		for k, v := range r.Notes {
			notes[k] += v
		}
		violW = append(violW, r.Violations...)
		if r.Reach != nil {
			reachW = append(reachW, *r.Reach)
		}
		if r.TemplateSize != nil && len(r.Inconcl) == 0 && len(r.Violations) == 0 {
			inputs.Add(inputs, r.TemplateSize)
		}
	}

	// native replay of counterexamples (all) and reachability witnesses (sample)
	maxReach := 60
	if o.tier == "thorough" {
		maxReach = 200
	}
	step := 1
	if len(reachW) > maxReach {
		step = (len(reachW) + maxReach - 1) / maxReach
	}
	type rc struct {
		w    *Witness
		kind string
	}
	cases := map[string][]ReplayCase{}
	idx := map[string]rc{}
	n := 0
	addCase := func(w *Witness, kind string) {
		n++
		cid := fmt.Sprintf("%s-%d", kind, n)
		cases[w.Pkg] = append(cases[w.Pkg], ReplayCase{ID: cid, Func: w.Func, Args: w.Args, Active: w.Active})
		idx[cid] = rc{w, kind}
	}
	for i := range violW {
		addCase(&violW[i], "v")
	}
	for i := 0; i < len(reachW); i += step {
		addCase(&reachW[i], "r")
	}
	validated := 0
	syncOK := 0
	var confirmed []*Witness
	mismatches := 0
	for pkg, cs := range cases {
		outs, err := p.Replay(pkg, cs, false)
		if err != nil {
			fmt.Fprintln(os.Stderr, "replay:", err)
			return 2
		}
		// write/nondeterminism monitor witnesses are confirmed under the race detector with two
		// goroutines sharing the values (vv.Concurrently): up to 2 witnesses per (harness,
		// first argument, message) group and 48 in all, each in its own process; the other
		// witnesses of a group share the verdict of its raced representatives
		raceKey := func(w *Witness) string { return w.Func + "|" + w.Args[0] + "|" + w.Msg }
		var raceCases []ReplayCase
		perKey := map[string]int{}
		for _, c := range cs {
			e := idx[c.ID]
			if e.kind == "v" && (e.w.Kind == "sharedwrite" || e.w.Kind == "nondet" || e.w.Kind == "syncwrite" || (id == "C19" && e.w.Kind == "violation")) && perKey[raceKey(e.w)] < 2 && len(raceCases) < 48 {
				perKey[raceKey(e.w)]++
				raceCases = append(raceCases, c)
			}
		}
		raced := map[string]bool{}
		keyConfirmed := map[string]bool{}
		if len(raceCases) > 0 {
			ro, err := p.Replay(pkg, raceCases, true)
			if err != nil {
				fmt.Fprintln(os.Stderr, "race replay:", err)
			} else {
				for id2, o := range ro {
					outs[id2] = o
					raced[id2] = true
					if o.Outcome == "race" || o.Outcome == "assert" {
						keyConfirmed[raceKey(idx[id2].w)] = true
					}
				}
			}
		}
		for _, c := range cs {
			e := idx[c.ID]
			oc, ok := outs[c.ID]
			if !ok {
				inconcl = append(inconcl, Inconclusive{e.w.Config, "replay produced no outcome for " + c.ID})
				continue
			}
			e.w.Replay = oc.Outcome + ":" + oc.Msg
			switch e.kind {
			case "v":
				good := false
				switch e.w.Kind {
				case "violation":
					good = oc.Outcome == "assert"
					if id == "C19" {
						// history-dependence witnesses are replayed one per process (state left behind by an
						// earlier case of the same process would mask them), under the race detector
						good = oc.Outcome == "assert" || oc.Outcome == "race"
						if !raced[c.ID] && keyConfirmed[raceKey(e.w)] {
							good = true
							e.w.Replay = "not replayed in a process of its own; same harness, ecosystem and message as a confirmed witness"
						}
					}
				case "panic":
					good = oc.Outcome == "panic"
				case "sharedwrite", "nondet", "syncwrite":
					good = oc.Outcome == "race" || oc.Outcome == "assert"
					if !raced[c.ID] && keyConfirmed[raceKey(e.w)] {
						good = true
						e.w.Replay = "not raced itself; same harness, ecosystem and monitor report as a witness confirmed under -race"
					}
				}
				if !good && e.w.Kind == "syncwrite" {
					// a write under a lock or through an atomic that the race detector accepts (or that
					// was not raced): properly synchronised as far as this run can tell - not reported
					syncOK++
					continue
				}
				if good {
					e.w.Confirm = true
					validated++
					confirmed = append(confirmed, e.w)
				} else {
					mismatches++
					inconcl = append(inconcl, Inconclusive{e.w.Config, fmt.Sprintf("ENGINE-MISMATCH: model %v for %q replays natively as %s %s", e.w.Args, e.w.Msg, oc.Outcome, oc.Msg)})
				}
			case "r":
				if oc.Outcome == "assert" || oc.Asserts >= 1 || (oc.Outcome == "ok" && oc.Asserts == 0 && false) {
					validated++
				} else {
					mismatches++
					inconcl = append(inconcl, Inconclusive{e.w.Config, fmt.Sprintf("ENGINE-MISMATCH: reachability witness %v replays natively as %s %s (asserts=%d)", e.w.Args, oc.Outcome, oc.Msg, oc.Asserts)})
				}
			}
		}
	}

	// output
	os.MkdirAll(filepath.Join(evidenceDir(), "replays"), 0o755)
	old, _ := filepath.Glob(filepath.Join(evidenceDir(), "replays", id+"-*.json"))
	for _, f := range old {
		os.Remove(f)
	}
	exit := 0
	seenMsg := map[string]int{}
	for i, w := range confirmed {
		path := filepath.Join(evidenceDir(), "replays", fmt.Sprintf("%s-%d.json", id, i+1))
		b, _ := json.MarshalIndent(w, "", " ")
		os.WriteFile(path, b, 0o644)
		key := w.Func + "|" + w.Args[0] + "|" + w.Msg
		seenMsg[key]++
		if seenMsg[key] <= 5 {
			fmt.Printf("VIOLATION property=%s replay=%s  # %s %s(%s)\n", id, path, w.Msg, w.Func, strings.Join(w.Args, ", "))
		}
		exit = 1
	}
	if len(confirmed) > 0 {
		fmt.Printf("%d confirmed violation(s) in total\n", len(confirmed))
	}
	sort.Slice(inconcl, func(i, j int) bool { return inconcl[i].Config < inconcl[j].Config })
	shown := 0
	for _, ic := range inconcl {
		if shown < 40 {
			fmt.Printf("INCONCLUSIVE config=%s reason=%s\n", ic.Config, ic.Reason)
		}
		shown++
	}
	if shown > 40 {
		fmt.Printf("... %d more inconclusive entries\n", shown-40)
	}
	vacList := []string{}
	for _, r := range results {
		if r != nil && r.Vacuous {
			vacList = append(vacList, r.Config.ID)
		}
	}
	if len(vacList) > 0 {
		lim := vacList
		if len(lim) > 15 {
			lim = lim[:15]
		}
		fmt.Printf("VACUOUS %d configuration(s) never reach an assertion, e.g. %s\n", len(vacList), strings.Join(lim, " ; "))
	}

	if o.verbose {
		type sl struct {
			id string
			w  float64
			p  int64
			mp int64
		}
		var sls []sl
		for _, r := range results {
			if r != nil {
				sls = append(sls, sl{r.Config.ID, r.Wall.Seconds(), r.Paths, r.Stats.MergedPaths})
			}
		}
		sort.Slice(sls, func(i, j int) bool { return sls[i].w > sls[j].w })
		for i := 0; i < len(sls) && i < 25; i++ {
			fmt.Fprintf(os.Stderr, "  slow: %.1fs paths=%d merged=%d %s\n", sls[i].w, sls[i].p, sls[i].mp, sls[i].id)
		}
	}
	// evidence
	var samples []interface{}
	for i, r := range results {
		if r == nil || r.Reach == nil {
			continue
		}
		if len(samples) < 8 && (i%(len(results)/8+1) == 0) {
			tm := []string{}
			for _, a := range r.Config.Args {
				switch a.Kind {
				case "tmpl", "str":
					tm = append(tm, a.S)
				default:
					tm = append(tm, fmt.Sprint(a.I))
				}
			}
			samples = append(samples, map[string]interface{}{"config": r.Config.ID, "harness": r.Config.Func, "templates": tm, "witness_reaching_assertion": r.Reach.Args,
				"paths": r.Paths, "queries": r.SolverQ, "inputs_covered": r.TemplateSize.String()})
		}
	}
	if len(samples) == 0 {
		samples = append(samples, map[string]interface{}{"note": "no configuration reached an assertion"})
	}
	topFuncs := topN(funcs, 60, p.modPath)
	wall := time.Since(t0).Seconds()
	ev := Evidence{PropertyID: id, Tier: o.tier, Seed: seed, Level: "model_checking", WallS: wall, Violations: len(confirmed),
		Assumptions: append([]string{
			"go/ssa (x/tools v0.50.0) represents the source faithfully; the engine's interpretation of SSA is validated by native replay of every model",
			"strings have concrete length and symbolic bytes (ASCII unless a template names bytes >= 0x80); only the lengths/shapes listed under bounds are covered",
			"intrinsics (regexp matcher, fmt, selected strings/strconv/unicode/time/sync functions) model the standard library and are validated by `vx selfcheck`; see natives_used",
			"the solver named under coverage.solver (z3 5.1.0 as z3-new by default; cvc5 when it answers unknown, and as a cross-check in the thorough tier) decides the Int/Bool queries correctly",
		}, cd.Assume...),
		Coverage: map[string]interface{}{
			"states":                           tot.paths + tot.mergedPaths,
			"transitions":                      tot.instrs,
			"traces_validated_against_impl":    validated,
			"samples":                          samples,
			"explanation":                      cd.Title,
			"rule":                             cd.Rule,
			"bounds":                           cd.Bounds(o.tier),
			"configs":                          len(cfgs),
			"top_level_paths":                  tot.paths,
			"merged_call_paths":                tot.mergedPaths,
			"assertions_discharged_by_solver":  tot.asserts,
			"assertions_decided_syntactically": tot.triv,
			"queries":                          map[string]int{"total": tot.q, "unsat": tot.unsat, "sat": tot.sat, "unknown": tot.unk},
			"solver":                           o.solver,
			"cross_solver":                     crossEvidence(o),
			"solver_s":                         tot.solverS,
			"load_s":                           loadS,
			"vacuous_configs":                  tot.vacuous,
			"unexplored_configs":               tot.inconclCfgs,
			"engine_mismatches":                mismatches,
			"synchronised_shared_writes_accepted_by_race_detector": syncOK,
			"inconclusive":                       firstN(inconcl, 20),
			"functions_encoded":                  topFuncs,
			"functions_encoded_total":            len(funcs),
			"natives_used":                       natives,
			"notes":                              notes,
			"known_findings_seen":                kfSeen,
			"configs_excluded_by_known_findings": excluded,
			"inputs_covered":                     inputs.String(),
			"confirmed_violations":               firstW(confirmed, 10),
			"exhaustive":                         false,
		}}
	b, _ := json.MarshalIndent(ev, "", " ")
	os.WriteFile(filepath.Join(evidenceDir(), id+".json"), b, 0o644)
	fmt.Printf("%s %s: configs=%d paths=%d merged_paths=%d queries=%d (unsat=%d sat=%d unknown=%d) solver=%.1fs wall=%.1fs inputs_covered=%s vacuous=%d unexplored=%d mismatches=%d violations=%d\n",
		id, o.tier, len(cfgs), tot.paths, tot.mergedPaths, tot.q, tot.unsat, tot.sat, tot.unk, tot.solverS, wall, inputs.String(), tot.vacuous, tot.inconclCfgs, mismatches, len(confirmed))
	if exit == 0 && o.strict && (tot.vacuous > 0 || tot.inconclCfgs > 0 || mismatches > 0 || tot.unk > 0) {
		return 3
	}
	return exit
}

func firstN(xs []Inconclusive, n int) []Inconclusive {
	if len(xs) > n {
		return xs[:n]
	}
	return xs
}
func firstW(xs []*Witness, n int) []*Witness {
	if len(xs) > n {
		return xs[:n]
	}
	return xs
}

func topN(m map[string]int64, n int, prefer string) []string {
	type kv struct {
		k string
		v int64
	}
	var repo, other []kv
	for k, v := range m {
		if strings.Contains(k, prefer) {
			repo = append(repo, kv{k, v})
		} else {
			other = append(other, kv{k, v})
		}
	}
	sort.Slice(repo, func(i, j int) bool { return repo[i].v > repo[j].v })
	sort.Slice(other, func(i, j int) bool { return other[i].v > other[j].v })
	var out []string
	for _, e := range repo {
		if len(out) >= n {
			break
		}
		out = append(out, fmt.Sprintf("%s x%d", strings.ReplaceAll(e.k, prefer+"/", ""), e.v))
	}
	for _, e := range other {
		if len(out) >= n+20 {
			break
		}
		out = append(out, fmt.Sprintf("%s x%d", e.k, e.v))
	}
	return out
}

// evidenceDir is /verif/evidence, or $VX_EVIDENCE (scratch evaluations of seeded changes).
func evidenceDir() string {
	if d := os.Getenv("VX_EVIDENCE"); d != "" {
		return d
	}
	return filepath.Join(verifDir, "evidence")
}

// newCheckSolver starts the deciding solver of a worker and, with --cross, the second solver.
func newCheckSolver(o checkOpts, tb *TB) (*Solver, error) {
	s, err := NewSolver(o.solver, tb, o.timeout)
	if err != nil {
		return nil, err
	}
	if o.cross != "" && o.cross != o.solver {
		if err := s.AttachCross(o.cross, o.crossEvery, o.timeout); err != nil {
			s.Close()
			return nil, err
		}
	}
	return s, nil
}

func crossEvidence(o checkOpts) map[string]any {
	fb := map[string]any{"solver": "cvc5", "asked_after_primary_unknown": fallbackAsked, "decided": fallbackDecided}
	if o.cross == "" {
		return map[string]any{"enabled": false, "fallback_on_unknown": fb}
	}
	return map[string]any{"enabled": true, "fallback_on_unknown": fb, "second_solver": o.cross, "every_nth_definite_verdict": o.crossEvery,
		"compared": crossCompared, "agreed": crossAgreed, "disagreed": crossDisagreed, "second_solver_unknown": crossSecondUnknown}
}
