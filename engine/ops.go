package main

import (
	"fmt"
	"go/token"
	"go/types"
	"math/big"
	"unicode/utf8"

	"golang.org/x/tools/go/ssa"
)

func decodeRuneBytes(b []byte) (rune, int) { return utf8.DecodeRune(b) }

func (in *Interp) strEq(a, b Str) *Term {
	if len(a.B) != len(b.B) {
		return in.tb.False
	}
	r := in.tb.True
	for i := len(a.B) - 1; i >= 0; i-- {
		e := in.tb.Eq(a.B[i], b.B[i])
		if e.IsFalse() {
			return in.tb.False
		}
		r = in.tb.And(e, r)
	}
	return r
}

// strLt: lexicographic a < b (bytewise), as one formula.
func (in *Interp) strLt(a, b Str) *Term {
	n := len(a.B)
	if len(b.B) < n {
		n = len(b.B)
	}
	// tail: all common bytes equal -> shorter is less
	res := in.tb.Bool(len(a.B) < len(b.B))
	for i := n - 1; i >= 0; i-- {
		lt := in.tb.Lt(a.B[i], b.B[i])
		eq := in.tb.Eq(a.B[i], b.B[i])
		res = in.tb.Or(lt, in.tb.And(eq, res))
	}
	return res
}

func (in *Interp) binop(op token.Token, xt types.Type, x, y Value, rt types.Type, yt types.Type) Value {
	tb := in.tb
	switch a := x.(type) {
	case *Term:
		b, ok := y.(*Term)
		if !ok {
			panic(fmt.Sprintf("binop %s: mixed operands %T %T", op, x, y))
		}
		if a.sort == SBool {
			switch op {
			case token.EQL:
				return tb.Eq(a, b)
			case token.NEQ:
				return tb.Not(tb.Eq(a, b))
			case token.AND, token.LAND:
				return tb.And(a, b)
			case token.OR, token.LOR:
				return tb.Or(a, b)
			}
			unsup("bool binop %s", op)
		}
		switch op {
		case token.EQL:
			return tb.Eq(a, b)
		case token.NEQ:
			return tb.Not(tb.Eq(a, b))
		case token.LSS:
			return tb.Lt(a, b)
		case token.LEQ:
			return tb.Le(a, b)
		case token.GTR:
			return tb.Lt(b, a)
		case token.GEQ:
			return tb.Le(b, a)
		}
		bits, signed, ok := intTypeInfo(rt)
		if !ok {
			unsup("int binop %s on type %s", op, rt)
		}
		switch op {
		case token.ADD:
			return tb.Wrap(tb.Add(a, b), bits, signed)
		case token.SUB:
			return tb.Wrap(tb.Sub(a, b), bits, signed)
		case token.MUL:
			return tb.Wrap(tb.Mul(a, b), bits, signed)
		case token.QUO:
			in.checkNonZero(b)
			return tb.Wrap(tb.DivT(a, b), bits, signed)
		case token.REM:
			in.checkNonZero(b)
			return tb.RemT(a, b)
		case token.SHL:
			k, ok := b.Int64()
			if !ok {
				k = in.concretizeInt(b, "shift count")
			}
			if k < 0 {
				goPanic("negative shift amount")
			}
			if k >= int64(bits) {
				return tb.Int(0)
			}
			return tb.Wrap(tb.Mul(a, tb.Big(new(big.Int).Lsh(big.NewInt(1), uint(k)))), bits, signed)
		case token.SHR:
			k, ok := b.Int64()
			if !ok {
				k = in.concretizeInt(b, "shift count")
			}
			if k < 0 {
				goPanic("negative shift amount")
			}
			if k >= int64(bits) {
				if signed {
					return tb.Ite(tb.Lt(a, tb.Int(0)), tb.Int(-1), tb.Int(0))
				}
				return tb.Int(0)
			}
			return tb.DivF(a, new(big.Int).Lsh(big.NewInt(1), uint(k)))
		case token.AND, token.OR, token.XOR, token.AND_NOT:
			return in.bitop(op, a, b, bits, signed)
		}
		unsup("int binop %s", op)
	case Str:
		b := y.(Str)
		switch op {
		case token.ADD:
			n := make([]*Term, 0, len(a.B)+len(b.B))
			n = append(n, a.B...)
			n = append(n, b.B...)
			return Str{n}
		case token.EQL:
			return in.strEq(a, b)
		case token.NEQ:
			return tb.Not(in.strEq(a, b))
		case token.LSS:
			return in.strLt(a, b)
		case token.GTR:
			return in.strLt(b, a)
		case token.LEQ:
			return tb.Not(in.strLt(b, a))
		case token.GEQ:
			return tb.Not(in.strLt(a, b))
		}
		unsup("string binop %s", op)
	case Float:
		b := y.(Float)
		switch op {
		case token.ADD:
			return a + b
		case token.SUB:
			return a - b
		case token.MUL:
			return a * b
		case token.QUO:
			return a / b
		case token.EQL:
			return tb.Bool(a == b)
		case token.NEQ:
			return tb.Bool(a != b)
		case token.LSS:
			return tb.Bool(a < b)
		case token.LEQ:
			return tb.Bool(a <= b)
		case token.GTR:
			return tb.Bool(a > b)
		case token.GEQ:
			return tb.Bool(a >= b)
		}
		unsup("float binop %s", op)
	}
	// identity comparisons
	if op == token.EQL || op == token.NEQ {
		eq := in.identEq(x, y)
		if op == token.NEQ {
			return tb.Not(eq)
		}
		return eq
	}
	unsup("binop %s on %T", op, x)
	return nil
}

func (in *Interp) identEq(x, y Value) *Term {
	tb := in.tb
	switch a := x.(type) {
	case *Ptr:
		b := y.(*Ptr)
		return tb.Bool(a.P == b.P)
	case Iface:
		b, ok := y.(Iface)
		if !ok {
			panic("iface == non-iface")
		}
		if a.T == nil || b.T == nil {
			return tb.Bool(a.T == nil && b.T == nil)
		}
		if !types.Identical(a.T, b.T) {
			return tb.False
		}
		switch av := a.V.(type) {
		case *ErrObj:
			bv, ok := b.V.(*ErrObj)
			return tb.Bool(ok && av == bv)
		case *Term, Str, *Ptr, Struct, Array:
			return in.identEq(a.V, b.V)
		}
		unsup("interface comparison of %T", a.V)
	case *Term:
		return tb.Eq(a, y.(*Term))
	case Str:
		return in.strEq(a, y.(Str))
	case *Slice:
		b := y.(*Slice)
		if a.Nil || b.Nil {
			return tb.Bool(a.Nil && b.Nil)
		}
		unsup("slice comparison")
	case *Map:
		b := y.(*Map)
		if a.Nil || b.Nil {
			return tb.Bool(a.Nil && b.Nil)
		}
		return tb.Bool(a == b)
	case *Closure:
		b := y.(*Closure)
		an := a.Fn == nil && a.Builtin == nil && a.Native == ""
		bn := b.Fn == nil && b.Builtin == nil && b.Native == ""
		if an || bn {
			return tb.Bool(an && bn)
		}
		unsup("func comparison")
	case Struct:
		b := y.(Struct)
		r := tb.True
		for i := range a {
			r = tb.And(r, in.identEq(a[i], b[i]))
		}
		return r
	case Array:
		b := y.(Array)
		r := tb.True
		for i := range a {
			r = tb.And(r, in.identEq(a[i], b[i]))
		}
		return r
	case *ErrObj:
		b, ok := y.(*ErrObj)
		return tb.Bool(ok && a == b)
	}
	unsup("comparison of %T", x)
	return nil
}

func (in *Interp) checkNonZero(b *Term) {
	z := in.tb.Eq(b, in.tb.Int(0))
	if z.IsFalse() {
		return
	}
	if in.branch(z) {
		goPanic("integer divide by zero")
	}
}

// bitop supports concrete operands, and masks with constants of the form 2^k-1 on non-negative values.
func (in *Interp) bitop(op token.Token, a, b *Term, bits uint8, signed bool) Value {
	tb := in.tb
	if a.op == OConst && b.op == OConst {
		r := new(big.Int)
		switch op {
		case token.AND:
			r.And(a.val, b.val)
		case token.OR:
			r.Or(a.val, b.val)
		case token.XOR:
			r.Xor(a.val, b.val)
		case token.AND_NOT:
			r.AndNot(a.val, b.val)
		}
		return tb.Wrap(tb.Big(r), bits, signed)
	}
	if op == token.AND {
		if a.op == OConst {
			a, b = b, a
		}
		if b.op == OConst && b.val.Sign() >= 0 && a.lo != nil && a.lo.Sign() >= 0 {
			m := new(big.Int).Add(b.val, big.NewInt(1))
			if m.BitLen() > 0 && new(big.Int).And(m, b.val).Sign() == 0 { // m is a power of two
				return tb.ModF(a, m)
			}
			if b.val.Sign() == 0 {
				return tb.Int(0)
			}
		}
	}
	// packing idiom: x<<k | y with y < 2^k (the low k bits of x<<k are zero): OR and XOR are additions
	if (op == token.OR || op == token.XOR) && a.lo != nil && b.lo != nil && a.lo.Sign() >= 0 && b.lo.Sign() >= 0 && a.hi != nil && b.hi != nil {
		if trailingZeroBits(a) >= b.hi.BitLen() || trailingZeroBits(b) >= a.hi.BitLen() {
			return tb.Wrap(tb.Add(a, b), bits, signed)
		}
	}
	if bop, ok := map[token.Token]Op{token.AND: OBitAnd, token.OR: OBitOr, token.XOR: OBitXor}[op]; ok {
		if t := tb.BitOp(bop, a, b); t != nil {
			return tb.Wrap(t, bits, signed)
		}
	}
	// fall back to enumeration over a single small-domain variable pair: concretize both
	if vals := in.possibleValues(a, 256); vals != nil {
		if vb := in.possibleValues(b, 256); vb != nil && len(vals)*len(vb) <= 512 {
			av := in.concretizeInt(a, "bit operand")
			bv := in.concretizeInt(b, "bit operand")
			return in.bitop(op, tb.Int(av), tb.Int(bv), bits, signed)
		}
	}
	if bop, ok := map[token.Token]Op{token.AND: OBitAnd, token.OR: OBitOr, token.XOR: OBitXor}[op]; ok {
		if t := tb.BitOp(bop, a, b); t != nil {
			return t
		}
	}
	unsup("bit operation %s on symbolic operands %s, %s", op, a, b)
	return nil
}

// trailingZeroBits: a lower bound on the number of low zero bits of a non-negative term.
func trailingZeroBits(t *Term) int {
	switch t.op {
	case OConst:
		if t.val.Sign() == 0 {
			return 64
		}
		return int(t.val.TrailingZeroBits())
	case OMul:
		return trailingZeroBits(t.a) + trailingZeroBits(t.b)
	case OAdd, OBitOr, OBitXor:
		x, y := trailingZeroBits(t.a), trailingZeroBits(t.b)
		if y < x {
			return y
		}
		return x
	case OIte:
		x, y := trailingZeroBits(t.b), trailingZeroBits(t.c)
		if y < x {
			return y
		}
		return x
	case OWrap:
		if n := trailingZeroBits(t.a); n < int(t.bits) {
			return n
		}
		return int(t.bits)
	}
	return 0
}

func (in *Interp) convert(v Value, from, to types.Type) Value {
	tb := in.tb
	fu, tu := from.Underlying(), to.Underlying()
	// string <- int/rune/[]byte/[]rune
	if isStringType(to) {
		switch x := v.(type) {
		case Str:
			return x
		case *Term: // string(rune)
			return in.runeToString(x)
		case *Slice:
			el := fu.(*types.Slice).Elem().Underlying().(*types.Basic)
			if el.Kind() == types.Uint8 {
				out := make([]*Term, x.Len)
				for i := 0; i < x.Len; i++ {
					out[i] = x.Arr[x.Off+i].(*Term)
				}
				return Str{out}
			}
			var out []*Term
			for i := 0; i < x.Len; i++ {
				out = append(out, in.runeToString(x.Arr[x.Off+i].(*Term)).B...)
			}
			return Str{out}
		}
	}
	if s, ok := v.(Str); ok {
		if sl, ok := tu.(*types.Slice); ok {
			el := sl.Elem().Underlying().(*types.Basic)
			if el.Kind() == types.Uint8 {
				arr := make([]Value, len(s.B))
				for i, b := range s.B {
					arr[i] = b
				}
				return &Slice{Arr: arr, Len: len(arr), Cap: len(arr), Stamp: in.newStamp()}
			}
			// []rune(s)
			var arr []Value
			for i := 0; i < len(s.B); {
				r, w := in.decodeRune(s.B[i:])
				arr = append(arr, r)
				i += w
			}
			return &Slice{Arr: arr, Len: len(arr), Cap: len(arr), Stamp: in.newStamp()}
		}
	}
	if t, ok := v.(*Term); ok {
		if bits, signed, ok := intTypeInfo(to); ok {
			return tb.Wrap(t, bits, signed)
		}
		if isFloatType(to) {
			if c, ok := t.Int64(); ok {
				return Float(float64(c))
			}
			unsup("symbolic int to float conversion")
		}
	}
	if f, ok := v.(Float); ok {
		if isFloatType(to) {
			return f
		}
		if bits, signed, ok := intTypeInfo(to); ok {
			return tb.Wrap(tb.Int(int64(f)), bits, signed)
		}
	}
	switch tu.(type) {
	case *types.Pointer, *types.Slice, *types.Struct, *types.Array, *types.Signature, *types.Map:
		return v
	case *types.Basic:
		if tu.(*types.Basic).Kind() == types.UnsafePointer {
			return v
		}
	}
	unsup("conversion %s -> %s (%T)", from, to, v)
	return nil
}

func (in *Interp) runeToString(r *Term) Str {
	tb := in.tb
	if c, ok := r.Int64(); ok {
		return in.mkStr(string(rune(c)))
	}
	if in.branch(tb.And(tb.Le(tb.Int(0), r), tb.Lt(r, tb.Int(0x80)))) {
		return Str{[]*Term{r}}
	}
	// symbolic rune >= 0x80: utf8.EncodeRune by length class; surrogates and out-of-range values
	// encode U+FFFD
	d := func(t *Term, k int64) *Term { return tb.DivF(t, big.NewInt(k)) }
	m := func(t *Term, k int64) *Term { return tb.ModF(t, big.NewInt(k)) }
	inR := func(lo, hi int64) bool { return in.branch(tb.And(tb.Le(tb.Int(lo), r), tb.Le(r, tb.Int(hi)))) }
	switch {
	case inR(0x80, 0x7FF):
		return Str{[]*Term{tb.Add(tb.Int(0xC0), d(r, 64)), tb.Add(tb.Int(0x80), m(r, 64))}}
	case inR(0x800, 0xD7FF) || inR(0xE000, 0xFFFF):
		return Str{[]*Term{tb.Add(tb.Int(0xE0), d(r, 4096)), tb.Add(tb.Int(0x80), m(d(r, 64), 64)), tb.Add(tb.Int(0x80), m(r, 64))}}
	case inR(0x10000, 0x10FFFF):
		return Str{[]*Term{tb.Add(tb.Int(0xF0), d(r, 262144)), tb.Add(tb.Int(0x80), m(d(r, 4096), 64)), tb.Add(tb.Int(0x80), m(d(r, 64), 64)), tb.Add(tb.Int(0x80), m(r, 64))}}
	}
	return in.mkStr("\uFFFD")
}

// ---------------------------------------------------------------------------------------------
// builtins

func (in *Interp) builtin(fr *frame, b *ssa.Builtin, cc *ssa.CallCommon, args []Value) Value {
	tb := in.tb
	switch b.Name() {
	case "len":
		switch x := args[0].(type) {
		case Str:
			return tb.Int(int64(len(x.B)))
		case *Slice:
			return tb.Int(int64(x.Len))
		case *Map:
			return tb.Int(int64(len(x.Ents)))
		case Array:
			return tb.Int(int64(len(x)))
		case *Ptr:
			if at, ok := cc.Args[0].Type().Underlying().(*types.Pointer); ok {
				if a, ok := at.Elem().Underlying().(*types.Array); ok {
					return tb.Int(a.Len())
				}
			}
		}
		unsup("len of %T", args[0])
	case "cap":
		switch x := args[0].(type) {
		case *Slice:
			return tb.Int(int64(x.Cap))
		case Array:
			return tb.Int(int64(len(x)))
		}
		unsup("cap of %T", args[0])
	case "append":
		s := args[0].(*Slice)
		var add []Value
		switch t := args[1].(type) {
		case *Slice:
			for i := 0; i < t.Len; i++ {
				add = append(add, copyVal(t.Arr[t.Off+i]))
			}
		case Str:
			for _, bt := range t.B {
				add = append(add, bt)
			}
		default:
			unsup("append of %T", args[1])
		}
		if len(add) == 0 {
			return s
		}
		if s.Len+len(add) <= s.Cap {
			in.checkWrite(s.Stamp, "append in place")
			for i, v := range add {
				if s.Stamp <= in.globalStampMax && in.inInit == 0 {
					in.globalTrail = append(in.globalTrail, globalUndo{&s.Arr[s.Off+s.Len+i], s.Arr[s.Off+s.Len+i]})
				}
				s.Arr[s.Off+s.Len+i] = v
			}
			return &Slice{Arr: s.Arr, Off: s.Off, Len: s.Len + len(add), Cap: s.Cap, Stamp: s.Stamp}
		}
		ncap := s.Len + len(add)
		if ncap < 2*s.Cap {
			ncap = 2 * s.Cap
		}
		arr := make([]Value, ncap)
		for i := 0; i < s.Len; i++ {
			arr[i] = s.Arr[s.Off+i]
		}
		copy(arr[s.Len:], add)
		et := cc.Args[0].Type().Underlying().(*types.Slice).Elem()
		for i := s.Len + len(add); i < ncap; i++ {
			arr[i] = in.zero(et)
		}
		return &Slice{Arr: arr, Len: s.Len + len(add), Cap: ncap, Stamp: in.newStamp()}
	case "copy":
		dst := args[0].(*Slice)
		var src []Value
		switch t := args[1].(type) {
		case *Slice:
			for i := 0; i < t.Len; i++ {
				src = append(src, copyVal(t.Arr[t.Off+i]))
			}
		case Str:
			for _, bt := range t.B {
				src = append(src, bt)
			}
		}
		n := len(src)
		if dst.Len < n {
			n = dst.Len
		}
		if n > 0 {
			in.checkWrite(dst.Stamp, "copy")
		}
		for i := 0; i < n; i++ {
			dst.Arr[dst.Off+i] = src[i]
		}
		return tb.Int(int64(n))
	case "delete":
		in.mapDelete(args[0].(*Map), args[1])
		return nil
	case "min", "max":
		r := args[0]
		for _, a := range args[1:] {
			x, y := r.(*Term), a.(*Term)
			var c *Term
			if b.Name() == "min" {
				c = tb.Lt(y, x)
			} else {
				c = tb.Lt(x, y)
			}
			r = tb.Ite(c, y, x)
		}
		return r
	case "print", "println":
		return nil
	case "panic":
		goPanic("panic builtin: %s", showValue(args[0]))
	case "recover":
		return Iface{}
	case "clear":
		switch x := args[0].(type) {
		case *Map:
			in.checkWrite(x.Stamp, "clear map")
			x.Ents = nil
			return nil
		}
	case "ssa:wrapnilchk":
		p := args[0].(*Ptr)
		if p.P == nil {
			goPanic("value method called using nil pointer")
		}
		return p
	}
	unsup("builtin %s", b.Name())
	return nil
}
