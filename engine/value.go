package main

import (
	"fmt"
	"go/types"
	"strings"

	"golang.org/x/tools/go/ssa"
)

// Value is one of:
//   *Term            scalar (Int or Bool sort)
//   Str              string with concrete length and symbolic bytes
//   *Ptr             pointer (P==nil: nil pointer)
//   Struct           []Value by field index (value semantics, copied on load/store)
//   Array            []Value
//   *Slice           slice header (nil *Slice never used; Nil flag)
//   *Map             map (nil map: Nil flag)
//   Iface            interface value (T==nil: nil interface)
//   *Closure         function value (nil Fn and nil Builtin: nil func)
//   Tuple            multiple results
//   *RangeIter       iterator
//   Float            concrete float64 (only concrete floats are supported)
type Value interface{}

type Str struct{ B []*Term }

type Float float64

type Ptr struct {
	P     *Value
	Stamp int64 // allocation stamp of the containing object (0 = global)
	Obj   string // debugging label
}

type Struct []Value
type Array []Value

type Slice struct {
	Arr   []Value // backing array, full capacity (shared)
	Off   int
	Len   int
	Cap   int
	Nil   bool
	Stamp int64
}

type mapEntry struct {
	K Value
	V Value
}

type Map struct {
	Ents  []mapEntry
	Nil   bool
	Stamp int64
	KeyT  types.Type
	ValT  types.Type
}

type Iface struct {
	T types.Type
	V Value
}

type Closure struct {
	Fn      *ssa.Function
	Builtin *ssa.Builtin
	Env     []Value
	Native  string // name of a native (intrinsic) function value
}

type Tuple []Value

type RangeIter struct {
	Str  *Str
	Map  *Map
	Pos  int
	Keys []mapEntry
}

// ErrObj is the dynamic value of an opaque error (errors.New / fmt.Errorf).
type ErrObj struct {
	Msg   Str    // best-effort message (may be partial)
	Exact bool   // Msg is the exact message
	Wrap  *Iface // wrapped error, if any
	ID    int64
	lazy  func() Str
}

func (s Str) Concrete() (string, bool) {
	b := make([]byte, len(s.B))
	for i, t := range s.B {
		v, ok := t.Int64()
		if !ok {
			return "", false
		}
		b[i] = byte(v)
	}
	return string(b), true
}

func (in *Interp) mkStr(s string) Str {
	b := make([]*Term, len(s))
	for i := 0; i < len(s); i++ {
		b[i] = in.tb.Int(int64(s[i]))
	}
	return Str{b}
}

func showValue(v Value) string {
	switch x := v.(type) {
	case nil:
		return "<nil>"
	case *Term:
		return x.String()
	case Str:
		if s, ok := x.Concrete(); ok {
			return fmt.Sprintf("%q", s)
		}
		var sb strings.Builder
		sb.WriteString("str[")
		for i, b := range x.B {
			if i > 0 {
				sb.WriteString(" ")
			}
			if v, ok := b.Int64(); ok && v >= 32 && v < 127 {
				sb.WriteByte(byte(v))
			} else {
				sb.WriteString(b.String())
			}
		}
		sb.WriteString("]")
		return sb.String()
	case *Ptr:
		if x.P == nil {
			return "nilptr"
		}
		return "&" + showValue(*x.P)
	case Struct:
		var parts []string
		for _, f := range x {
			parts = append(parts, showValue(f))
		}
		return "{" + strings.Join(parts, ", ") + "}"
	case Array:
		var parts []string
		for _, f := range x {
			parts = append(parts, showValue(f))
		}
		return "[" + strings.Join(parts, ", ") + "]"
	case *Slice:
		if x.Nil {
			return "nilslice"
		}
		var parts []string
		for i := 0; i < x.Len; i++ {
			parts = append(parts, showValue(x.Arr[x.Off+i]))
		}
		return "[]{" + strings.Join(parts, ", ") + "}"
	case *Map:
		return fmt.Sprintf("map(%d)", len(x.Ents))
	case Iface:
		if x.T == nil {
			return "nil-iface"
		}
		return fmt.Sprintf("iface(%s:%s)", x.T, showValue(x.V))
	case *Closure:
		if x.Fn != nil {
			return "func " + x.Fn.String()
		}
		return "func?"
	case Tuple:
		var parts []string
		for _, f := range x {
			parts = append(parts, showValue(f))
		}
		return "(" + strings.Join(parts, ", ") + ")"
	case *ErrObj:
		return "err(" + showValue(x.Msg) + ")"
	}
	return fmt.Sprintf("%T", v)
}

// copyVal implements value semantics for aggregates.
func copyVal(v Value) Value {
	switch x := v.(type) {
	case Struct:
		n := make(Struct, len(x))
		for i, f := range x {
			n[i] = copyVal(f)
		}
		return n
	case Array:
		n := make(Array, len(x))
		for i, f := range x {
			n[i] = copyVal(f)
		}
		return n
	case Tuple:
		n := make(Tuple, len(x))
		for i, f := range x {
			n[i] = copyVal(f)
		}
		return n
	}
	return v
}

// zero value of a type
func (in *Interp) zero(t types.Type) Value {
	switch u := t.Underlying().(type) {
	case *types.Basic:
		switch {
		case u.Info()&types.IsBoolean != 0:
			return in.tb.False
		case u.Info()&types.IsInteger != 0:
			return in.tb.Int(0)
		case u.Info()&types.IsString != 0:
			return Str{}
		case u.Info()&types.IsFloat != 0:
			return Float(0)
		case u.Kind() == types.UnsafePointer:
			return &Ptr{}
		case u.Kind() == types.UntypedNil:
			return &Ptr{}
		}
		panic(unsupported{"zero of basic " + u.String()})
	case *types.Pointer:
		return &Ptr{}
	case *types.Struct:
		s := make(Struct, u.NumFields())
		for i := range s {
			s[i] = in.zero(u.Field(i).Type())
		}
		return s
	case *types.Array:
		a := make(Array, u.Len())
		for i := range a {
			a[i] = in.zero(u.Elem())
		}
		return a
	case *types.Slice:
		return &Slice{Nil: true}
	case *types.Map:
		return &Map{Nil: true, KeyT: u.Key(), ValT: u.Elem()}
	case *types.Interface:
		return Iface{}
	case *types.Signature:
		return &Closure{}
	case *types.Tuple:
		tu := make(Tuple, u.Len())
		for i := range tu {
			tu[i] = in.zero(u.At(i).Type())
		}
		return tu
	case *types.Chan:
		return &Ptr{}
	}
	panic(unsupported{"zero of " + t.String()})
}

type unsupported struct{ what string }

func intTypeInfo(t types.Type) (bits uint8, signed bool, ok bool) {
	b, isb := t.Underlying().(*types.Basic)
	if !isb || b.Info()&types.IsInteger == 0 {
		return 0, false, false
	}
	switch b.Kind() {
	case types.Int8:
		return 8, true, true
	case types.Int16:
		return 16, true, true
	case types.Int32:
		return 32, true, true
	case types.Int64, types.Int, types.UntypedInt, types.UntypedRune:
		return 64, true, true
	case types.Uint8:
		return 8, false, true
	case types.Uint16:
		return 16, false, true
	case types.Uint32:
		return 32, false, true
	case types.Uint64, types.Uint, types.Uintptr:
		return 64, false, true
	}
	return 0, false, false
}

func isStringType(t types.Type) bool {
	b, ok := t.Underlying().(*types.Basic)
	return ok && b.Info()&types.IsString != 0
}
func isBoolType(t types.Type) bool {
	b, ok := t.Underlying().(*types.Basic)
	return ok && b.Info()&types.IsBoolean != 0
}
func isFloatType(t types.Type) bool {
	b, ok := t.Underlying().(*types.Basic)
	return ok && b.Info()&types.IsFloat != 0
}
