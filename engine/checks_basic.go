package main

import (
	"os"
	"fmt"
	"strings"
)

func digitRun(n int) string {
	if n == 1 {
		return "{d}"
	}
	return "{D}" + strings.Repeat("{d}", n-1)
}

func numTemplate(eco string, k int, lens []int) string {
	parts := make([]string, k)
	for i := range parts {
		parts[i] = digitRun(lens[i%len(lens)])
	}
	return versionPrefix[eco] + strings.Join(parts, ".")
}

// upperMarkerEcos: ecosystems whose parsers accept upper-case letters in a marker (determined with
// VX_C03_UPPER=all: the others reject them for every content).
var upperMarkerEcos = map[string]bool{"alpm": true, "apache": true, "cargo": true, "conan": true, "debian": true, "gem": true, "github": true,
	"golang": true, "hex": true, "maven": true, "npm": true, "nuget": true, "rpm": true, "semver": true}

// upperMarkers: the markers with their literal letters in upper case (classes untouched).
func upperMarkers(eco string, ms []string) []string {
	if !upperMarkerEcos[eco] && os.Getenv("VX_C03_UPPER") != "all" {
		return nil
	}
	var out []string
	for _, m := range ms {
		var sb strings.Builder
		changed := false
		for i := 0; i < len(m); i++ {
			if m[i] == '{' {
				j := strings.IndexByte(m[i:], '}')
				if strings.HasPrefix(m[i:], "{[") {
					j = strings.Index(m[i:], "]}") + 1
				}
				sb.WriteString(m[i : i+j+1])
				i += j
				continue
			}
			c := m[i]
			if c >= 'a' && c <= 'z' {
				c -= 32
				changed = true
			}
			sb.WriteByte(c)
		}
		if changed && !has(ms, sb.String()) {
			out = append(out, sb.String())
		}
	}
	return out
}

// longMarker replaces the last digit position of a marker by an eight-digit number.
func longMarker(m string) string {
	i := strings.LastIndex(m, "{d}")
	if j := strings.LastIndex(m, "{D}"); j > i {
		i = j
	}
	if i < 0 {
		return m
	}
	return m[:i] + "{D}{d}{d}{d}{d}{d}{d}{d}" + m[i+3:]
}

func init() {
	registerCheck(&CheckDef{
		ID:    "C03",
		Title: "plain dotted-numeric versions of equal arity are accepted and order as integer tuples (components <= 2^31); pre-release markers sort older, post-release/revision markers newer",
		Pkgs:  []string{zzhPkg},
		Rule:  "C03Num: ecosystem x arity x digit-run lengths of a and of b (oracle: textual tuple order); C03Mark: ecosystem x base shape x marker spelling x direction",
		Gen: func(tier string) []*Config {
			var out []*Config
			lens := []int{1, 2, 3, 5, 10}
			if tier == "thorough" {
				lens = []int{1, 2, 3, 4, 5, 7, 9, 10}
			}
			for _, eco := range ecosystems {
				for _, k := range arities[eco] {
					var shapes [][]int
					for _, l := range lens {
						if eco == "github" && l == 4 {
							continue // 4-digit first component = date-shaped input, compared only among themselves
						}
						shapes = append(shapes, []int{l})
					}
					if tier == "thorough" && k >= 2 {
						shapes = append(shapes, []int{1, 10}, []int{10, 1}, []int{2, 3}, []int{3, 1, 2})
					}
					for _, la := range shapes {
						for _, lb := range shapes {
							a, b := numTemplate(eco, k, la), numTemplate(eco, k, lb)
							out = append(out, &Config{ID: fmt.Sprintf("C03/num/%s/%d/%s|%s", eco, k, a, b), Pkg: zzhPkg, Func: "C03Num", Args: []ArgSpec{ArgStr(eco), ArgTmpl(a), ArgTmpl(b)}})
						}
					}
				}
				if eco == "github" {
					// date-shaped inputs (4-digit first component) among themselves: integer tuples,
					// not calendar arithmetic (the parser accepts every day 1..31 in every month)
					ds := []string{"{D}{d}{d}{d}.{D}.{D}", "{D}{d}{d}{d}.1{[0-2]}.{[12]}{d}", "{D}{d}{d}{d}.{D}.3{[01]}", "{D}{d}{d}{d}.{D}.{[12]}{d}", "v{D}{d}{d}{d}.1{[0-2]}.{D}"}
					for _, a := range ds {
						for _, b := range ds {
							out = append(out, &Config{ID: fmt.Sprintf("C03/num/github/date/%s|%s", a, b), Pkg: zzhPkg, Func: "C03NumIf", Args: []ArgSpec{ArgStr(eco), ArgTmpl(a), ArgTmpl(b)}})
						}
					}
				}
				ms := markers[eco]
				// every numbered marker also with an eight-digit number (date-style snapshots)
				withLong := func(in []string) []string {
					out := append([]string{}, in...)
					for _, m := range in {
						if l := longMarker(m); l != m {
							out = append(out, l)
						}
					}
					return out
				}
				ms = markerSpec{older: withLong(ms.older), newer: withLong(ms.newer)}
				// upper-case spellings of the named markers, where the ecosystem accepts them
				ms.older = append(ms.older, upperMarkers(eco, ms.older)...)
				ms.newer = append(ms.newer, upperMarkers(eco, ms.newer)...)
				for _, base := range markerBases(eco) {
					for _, m := range ms.older {
						out = append(out, &Config{ID: fmt.Sprintf("C03/mark/%s/%s%s/older", eco, base, m), Pkg: zzhPkg, Func: "C03Mark", Args: []ArgSpec{ArgStr(eco), ArgTmpl(base), ArgTmpl(m), ArgInt(-1)}})
					}
					for _, m := range ms.newer {
						out = append(out, &Config{ID: fmt.Sprintf("C03/mark/%s/%s%s/newer", eco, base, m), Pkg: zzhPkg, Func: "C03Mark", Args: []ArgSpec{ArgStr(eco), ArgTmpl(base), ArgTmpl(m), ArgInt(1)}})
					}
				}
			}
			return out
		},
		Bounds: func(tier string) string {
			return "arities per DESIGN B.2; digit-run lengths {1,2,3,5,10} (thorough adds 4,7,9 and mixed lengths); values <= 2^31 without leading zeros; github date-shaped inputs (YYYY.M.D, months 1-12, days 1-31) among themselves; marker spellings per DESIGN B.3 on 2-4 base shapes, numbered markers with one digit and with eight digits, and the markers in upper case for the 14 ecosystems that accept them"
		},
		Assume: []string{"marker direction table and arity table are spec-side (DESIGN B.2, B.3)"},
	})

	registerCheck(&CheckDef{
		ID:    "C08",
		Title: "semver, npm, cargo, hex, golang, nuget order accepted SemVer-valid versions exactly as golang.org/x/mod/semver (SemVer 2.0.0 §11); the strict semver ecosystem accepts exactly the SemVer grammar",
		Pkgs:  []string{zzhPkg},
		Rule:  "C08Pair: ecosystem x template pair, oracle = x/mod/semver source executed symbolically; C08Strict: raw strings over the SemVer alphabet",
		Gen: func(tier string) []*Config {
			var out []*Config
			size := "m"
			if tier == "thorough" {
				size = "l"
			}
			for _, eco := range []string{"semver", "npm", "cargo", "hex", "golang", "nuget"} {
				ts := versionTemplates(eco, size)
				if eco == "nuget" {
					// the reference orders three-component versions only
					var f []string
					for _, t := range ts {
						core := t
						if i := strings.IndexAny(core, "-+"); i >= 0 {
							core = core[:i]
						}
						if strings.Count(core, ".") == 2 {
							f = append(f, t)
						}
					}
					ts = f
				}
				// shapes with an empty identifier are rejected everywhere (C01/C18 use them); a pair
				// harness that assumes acceptance would be vacuous on them
				var nonEmpty []string
				for _, t := range ts {
					if !strings.Contains(t, "..") && !strings.Contains(t, "-.") {
						nonEmpty = append(nonEmpty, t)
					}
				}
				ts = nonEmpty
				nt := 24
				if tier == "thorough" {
					nt = 60
				}
				pool := ts
				if eco == "golang" {
					// all three pseudo-version forms are always in the set
					ts = pick(eco, ts, nt)
				} else {
					ts = thin(ts, nt)
				}
				// always present: a numeric identifier above 2^31 and a hyphen-capable identifier next to it
				added := 0
				for _, t := range pool {
					if added < 2 && (strings.HasSuffix(t, "-{D}{d}{d}{d}{d}{d}{d}{d}{d}{d}") || strings.HasSuffix(t, "-{i}{i}")) && !has(ts, t) {
						ts = append(ts, t)
						added++
					}
				}
				for _, a := range ts {
					for _, b := range ts {
						out = append(out, &Config{ID: fmt.Sprintf("C08/pair/%s/%s|%s", eco, a, b), Pkg: zzhPkg, Func: "C08Pair", Args: []ArgSpec{ArgStr(eco), ArgTmpl(a), ArgTmpl(b)}})
					}
				}
			}
			// strictness of the semver ecosystem: raw mode over [0-9A-Za-z.+-]
			n := 7
			if tier == "thorough" {
				n = 9
			}
			for l := 5; l <= n; l++ {
				t := strings.Repeat("{[0-9A-Za-z.+\\-]}", l)
				out = append(out, &Config{ID: fmt.Sprintf("C08/strict/semver/raw%d", l), Pkg: zzhPkg, Func: "C08Strict", Args: []ArgSpec{ArgStr("semver"), ArgTmpl(t)}})
			}
			// a numeric core followed by a free pre-release / build tail of 1-4 (thorough 5) characters
			nt := 4
			if tier == "thorough" {
				nt = 5
			}
			for _, lead := range []string{"-", "+", "-{i}+", "-{d}."} {
				for l := 1; l <= nt; l++ {
					t := "{d}.{d}.{d}" + lead + strings.Repeat("{[0-9A-Za-z.+\\-]}", l)
					out = append(out, &Config{ID: fmt.Sprintf("C08/strict/semver/tail/%s%d", lead, l), Pkg: zzhPkg, Func: "C08Strict", Args: []ArgSpec{ArgStr("semver"), ArgTmpl(t)}})
				}
			}
			return out
		},
		Bounds: func(tier string) string {
			return "pairs over the 'm' (quick, thinned to 24) / 'l' (thorough, thinned to 60) SemVer-family templates: 0-4 identifiers of 1-18 characters, build metadata optional; strictness: all strings of length <= 7 (quick) / 9 (thorough) over [0-9A-Za-z.+-], and a numeric core followed by every pre-release / build tail of up to 4 / 5 characters over that alphabet"
		},
		Assume: []string{"golang.org/x/mod v0.41.0 semver.Compare/IsValid (source copy in /verif/harness/pkg/zzsemver) is the reference for SemVer 2.0.0 precedence"},
	})

	registerCheck(&CheckDef{
		ID:    "C02",
		Title: "a single supported comparator before a valid version parses and contains v iff Compare(v, bound) satisfies it; AND separators give the intersection, OR separators the union",
		Pkgs:  []string{zzhPkg},
		Rule:  "C02Cmp1: ecosystem x comparator x bound template x probe template; C02And2 / C02Or2: ecosystem x separator x comparator pair x templates; C02Three: three comparators under every pair of separators (OR of AND groups)",
		Gen: func(tier string) []*Config {
			var out []*Config
			for _, eco := range ecosystems {
				spec := opsTable[eco]
				if len(spec.ops) == 0 {
					continue
				}
				nb, np := 6, 6
				if tier == "thorough" {
					nb, np = 14, 14
				}
				bounds := rangeSafe(eco, versionTemplates(eco, "m"))
				bs := thin(bounds, nb)
				ps := thin(versionTemplates(eco, "m"), np)
				// the free-run probe (two characters over the whole version alphabet) and the must-have
				// spellings are always among the probes
				// ... and a version whose last numeric component has six digits (beyond 16 bits)
				bigComp := ""
				if ms := mustTemplates(eco); len(ms) > 0 {
					last := ms[len(ms)-1]
					if eco == "golang" {
						last = "v{d}.{d}.{d}"
					}
					if i := strings.LastIndex(last, "{d}"); i >= 0 {
						bigComp = last[:i] + "{D}{d}{d}{d}{d}{d}" + last[i+3:]
					}
				}
				for _, extra := range append([]string{freeRunOf(eco), bigComp}, mustTemplates(eco)...) {
					if extra != "" && !has(ps, extra) {
						ps = append(ps, extra)
					}
				}
				for _, op := range spec.ops {
					for _, b := range bs {
						for _, p := range ps {
							out = append(out, &Config{ID: fmt.Sprintf("C02/cmp1/%s/%s/%s|%s", eco, op, b, p), Pkg: zzhPkg, Func: "C02Cmp1", Args: []ArgSpec{ArgStr(eco), ArgStr(op), ArgTmpl(b), ArgTmpl(p)}})
						}
					}
				}
				// bounds and probes over the combinations of the grammar's optional parts (epoch,
				// pre / post, revision, build): a bound that lacks a part against a probe that carries it
				if ph := rangeSafe(eco, phaseTemplates(eco, "quick")); len(ph) > 0 {
					npp := 4
					if tier == "thorough" {
						npp = 12
					}
					for _, op := range spec.ops {
						for _, b := range thin(ph, npp) {
							for _, p := range thin(phaseTemplates(eco, "quick"), npp) {
								out = append(out, &Config{ID: fmt.Sprintf("C02/cmp1/%s/%s/parts/%s|%s", eco, op, b, p), Pkg: zzhPkg, Func: "C02Cmp1", Args: []ArgSpec{ArgStr(eco), ArgStr(op), ArgTmpl(b), ArgTmpl(p)}})
							}
						}
					}
				}
				n2 := 3
				if tier == "thorough" {
					n2 = 5
				}
				b2 := thin(bounds, n2)
				p2 := thin(versionTemplates(eco, "m"), n2)
				opPairs := [][2]string{{">=", "<"}, {">", "<="}, {"<", ">="}, {"=", "="}}
				if has(spec.ops, "!=") {
					opPairs = append(opPairs, [2]string{">=", "!="}, [2]string{"!=", "!="})
				}
				if eco == "pypi" {
					opPairs = [][2]string{{">=", "<"}, {">", "<="}, {"<", ">="}, {"==", "=="}, {">=", "!="}, {"!=", "!="}}
				}
				for _, sep := range spec.ands {
					for _, opp := range opPairs {
						for _, x := range b2 {
							for _, y := range b2 {
								for _, p := range p2 {
									out = append(out, &Config{ID: fmt.Sprintf("C02/and2/%s/%q/%s %s/%s|%s|%s", eco, sep, opp[0], opp[1], x, y, p), Pkg: zzhPkg, Func: "C02And2",
										Args: []ArgSpec{ArgStr(eco), ArgStr(opp[0]), ArgTmpl(x), ArgStr(sep), ArgStr(opp[1]), ArgTmpl(y), ArgTmpl(p)}})
								}
							}
						}
					}
				}
				// the same comparator twice with bounds from the part-combination templates (a bound that
				// lacks a part next to one that carries it: `>=1.5 >=1.5-2`), probes likewise
				if ph := rangeSafe(eco, phaseTemplates(eco, "quick")); len(ph) > 0 && len(spec.ands) > 0 {
					n3 := 3
					if tier == "thorough" {
						n3 = 5
					}
					same := [][2]string{{">=", ">="}, {"<=", "<="}, {"=", "="}}
					if eco == "pypi" {
						same[2] = [2]string{"==", "=="}
					}
					for _, opp := range same {
						if !has(spec.ops, opp[0]) {
							continue
						}
						for _, x := range thin(ph, n3) {
							for _, y := range thin(ph, n3) {
								for _, p := range thin(phaseTemplates(eco, "quick"), n3) {
									sep := spec.ands[0]
									out = append(out, &Config{ID: fmt.Sprintf("C02/and2/%s/%q/%s %s/parts/%s|%s|%s", eco, sep, opp[0], opp[1], x, y, p), Pkg: zzhPkg, Func: "C02And2",
										Args: []ArgSpec{ArgStr(eco), ArgStr(opp[0]), ArgTmpl(x), ArgStr(sep), ArgStr(opp[1]), ArgTmpl(y), ArgTmpl(p)}})
								}
							}
						}
					}
				}
				// three comparators: all AND, all OR and the two mixed forms, one bound template, two probes
				{
					type sepK struct {
						s  string
						or bool
					}
					var seps []sepK
					for _, s := range spec.ands {
						seps = append(seps, sepK{s, false})
					}
					for _, s := range spec.ors {
						seps = append(seps, sepK{s, true})
					}
					triples := [][3]string{{">=", "<", ">="}, {"=", "=", "="}, {"<", ">=", "<"}}
					if eco == "pypi" {
						triples = [][3]string{{">=", "<", ">="}, {"==", "==", "=="}, {"<", ">=", "<"}}
					}
					if has(spec.ops, "!=") {
						triples = append(triples, [3]string{">=", "!=", "!="})
					}
					if len(b2) > 0 {
						bt := b2[0]
						for _, s1 := range seps {
							for _, s2 := range seps {
								if !s1.or && !s2.or && s1.s != s2.s {
									continue // two different AND separators in one list: not a documented form
								}
								if s1.or && s2.or && s1.s != s2.s {
									continue
								}
								for _, tr := range triples {
									for _, p := range thin(p2, 2) {
										out = append(out, &Config{ID: fmt.Sprintf("C02/three/%s/%q%q/%s %s %s/%s|%s", eco, s1.s, s2.s, tr[0], tr[1], tr[2], bt, p), Pkg: zzhPkg, Func: "C02Three",
											Args: []ArgSpec{ArgStr(eco), ArgStr(tr[0]), ArgTmpl(bt), ArgStr(s1.s), ArgStr(tr[1]), ArgTmpl(bt), ArgStr(s2.s), ArgStr(tr[2]), ArgTmpl(bt), ArgTmpl(p), ArgBool(s1.or), ArgBool(s2.or)}})
									}
								}
							}
						}
					}
				}
				for _, sep := range spec.ors {
					for _, opp := range opPairs {
						for _, x := range b2 {
							for _, y := range b2 {
								for _, p := range p2 {
									out = append(out, &Config{ID: fmt.Sprintf("C02/or2/%s/%q/%s %s/%s|%s|%s", eco, sep, opp[0], opp[1], x, y, p), Pkg: zzhPkg, Func: "C02Or2",
										Args: []ArgSpec{ArgStr(eco), ArgStr(opp[0]), ArgTmpl(x), ArgStr(sep), ArgStr(opp[1]), ArgTmpl(y), ArgTmpl(p)}})
								}
							}
						}
					}
					// an exact alternative and a probe that differ in a part Compare ignores (build metadata)
					if plain, suff := ignoredPartTemplates(eco); plain != "" {
						for _, opp := range [][2]string{{"=", ">="}, {"=", "="}, {"<", "="}} {
							for _, xy := range [][2]string{{plain, plain}, {suff, plain}, {plain, suff}} {
								for _, p := range []string{plain, suff} {
									out = append(out, &Config{ID: fmt.Sprintf("C02/or2/%s/%q/%s %s/ignored/%s|%s|%s", eco, sep, opp[0], opp[1], xy[0], xy[1], p), Pkg: zzhPkg, Func: "C02Or2",
										Args: []ArgSpec{ArgStr(eco), ArgStr(opp[0]), ArgTmpl(xy[0]), ArgStr(sep), ArgStr(opp[1]), ArgTmpl(xy[1]), ArgTmpl(p)}})
								}
							}
						}
					}
				}
			}
			return out
		},
		Bounds: func(tier string) string {
			return "comparators and separators per DESIGN B.1; bounds: 6 (quick) / 14 (thorough) grammar templates without comparator-leading or separator characters, probes 6 / 14 templates incl. pre-releases; AND/OR: 3x3x3 (quick) / 5x5x5 templates x 4-6 comparator pairs; nuget and maven comparators are not claimed here"
		},
		Assume: []string{"comparator/separator table is spec-side (DESIGN B.1)"},
	})
}

func has(xs []string, s string) bool {
	for _, x := range xs {
		if x == s {
			return true
		}
	}
	return false
}

// rangeSafe drops templates that begin with a comparator character or contain one of the
// ecosystem's separator characters (the property's stated exclusion).
func rangeSafe(eco string, ts []string) []string {
	spec := opsTable[eco]
	var out []string
	for _, t := range ts {
		bad := false
		if len(t) > 0 && strings.ContainsRune("<>=!~^", rune(t[0])) {
			bad = true
		}
		lit := stripClasses(t)
		for _, sep := range append(append([]string{}, spec.ands...), spec.ors...) {
			for _, c := range strings.TrimSpace(sep) {
				if strings.ContainsRune(lit, c) {
					bad = true
				}
			}
			if strings.Contains(sep, " ") && strings.Contains(lit, " ") {
				bad = true
			}
		}
		// classes that can produce a separator or a comparator/range character
		if classesMayContain(t, ",| <>=!~^*") {
			bad = true
		}
		if !bad {
			out = append(out, t)
		}
	}
	return out
}

func stripClasses(t string) string {
	var sb strings.Builder
	pos, err := parseTemplate(t)
	if err != nil {
		return t
	}
	for _, p := range pos {
		if p.lit {
			sb.WriteByte(p.b)
		}
	}
	return sb.String()
}

func classesMayContain(t, chars string) bool {
	pos, err := parseTemplate(t)
	if err != nil {
		return false
	}
	for _, p := range pos {
		if p.lit {
			continue
		}
		for i := 0; i < len(chars); i++ {
			if p.set.Has(int(chars[i])) {
				return true
			}
		}
	}
	return false
}
