package main

import (
	"fmt"
	"strings"
)

func init() {
	registerCheck(&CheckDef{
		ID:    "C19",
		Title: "no operation writes memory that another call can reach (shared versions, ranges, ecosystems, package-level variables) and no operation consults a nondeterminism source; repeated calls return equal results",
		Pkgs:  []string{zzhPkg},
		Rule:  "write monitor + nondeterminism monitor over every path of C19Ops (ecosystem x version/range templates) and C19Vers; by reduction (no shared write => every interleaving equals a sequential run) this decides race freedom within the explored inputs",
		Gen: func(tier string) []*Config {
			var out []*Config
			for _, eco := range ecosystems {
				all := versionTemplates(eco, "m")
				nv, nr := 4, 6
				if tier == "thorough" {
					nv, nr = 8, 16
				}
				vs := pick(eco, all, nv-2)
				bounds := thin(rangeSafe(eco, all), 3)
				var rs []string
				if len(bounds) > 0 {
					rs = append(rs, comparatorRanges(eco, bounds)...)
				}
				rs = append(rs, shorthandRanges(eco)...)
				rs = thin(rs, nr)
				for _, a := range vs {
					for _, b := range vs {
						for _, r := range rs {
							out = append(out, &Config{ID: fmt.Sprintf("C19/ops/%s/%s|%s|%s", eco, a, b, r), Pkg: zzhPkg, Func: "C19Ops", Monitor: true, NoPanic: false,
								Args: []ArgSpec{ArgStr(eco), ArgTmpl(a), ArgTmpl(b), ArgTmpl(r)}})
						}
					}
				}
			}
			// history independence: the same calls before and after unrelated calls, and fresh values
			for _, eco := range ecosystems {
				all := versionTemplates(eco, "m")
				vs := pick(eco, all, 1)
				if len(vs) > 3 {
					vs = vs[:3]
				}
				bounds := thin(rangeSafe(eco, all), 2)
				var rs []string
				if len(bounds) > 0 {
					rs = append(rs, thin(comparatorRanges(eco, bounds), 2)...)
				}
				rs = append(rs, thin(shorthandRanges(eco), 2)...)
				// shorthand ranges whose operand carries a pre-release take a path of their own in
				// several parsers: always present, followed by a plain shorthand range as the unrelated call
				for _, r := range shorthandRanges(eco) {
					if strings.Contains(r, "-{") && !has(rs, r) {
						rs = append(rs, r)
					}
				}
				if sh := shorthandRanges(eco); len(sh) > 0 && !has(rs, sh[0]) {
					rs = append(rs, sh[0])
				}
				if len(rs) == 0 {
					continue
				}
				third := freeRunOf(eco)
				if third == "" {
					third = vs[0]
				}
				for _, a := range vs {
					for _, r := range rs {
						out = append(out, &Config{ID: fmt.Sprintf("C19/hist/%s/%s|%s", eco, a, r), Pkg: zzhPkg, Func: "C19Hist",
							Args: []ArgSpec{ArgStr(eco), ArgTmpl(a), ArgTmpl(vs[len(vs)-1]), ArgTmpl(r), ArgTmpl(third), ArgTmpl(rs[len(rs)-1])}})
					}
				}
				// a range next to spellings of itself that differ in insignificant white space (after the
				// comparator, around the separator): each keeps its own text and meaning
				if spec := opsTable[eco]; len(spec.ops) >= 2 && len(spec.ands) > 0 && len(bounds) > 0 {
					b := bounds[0]
					sep := spec.ands[len(spec.ands)-1]
					lo, hi := ">=", "<"
					base := lo + b + sep + hi + b
					variants := []string{lo + " " + b + sep + hi + b, lo + b + sep + " " + hi + b, lo + b + " " + sep + hi + b, lo + b + sep + hi + " " + b}
					for _, v2 := range variants {
						for _, pr := range [][2]string{{base, v2}, {v2, base}} {
							out = append(out, &Config{ID: fmt.Sprintf("C19/hist/%s/spellings/%s|%s", eco, pr[0], pr[1]), Pkg: zzhPkg, Func: "C19Spell",
								Args: []ArgSpec{ArgStr(eco), ArgTmpl(vs[0]), ArgTmpl(pr[0]), ArgTmpl(pr[1])}})
						}
					}
				}
			}
			// vers.Contains before and after a call with the same constraint text under another scheme
			// (and under the same scheme with another probe)
			histPairs := [][2]string{{"deb", "npm"}, {"npm", "deb"}, {"maven", "gem"}, {"pypi", "generic"}, {"rpm", "alpine"}, {"golang", "cargo"}, {"nuget", "npm"}, {"gem", "deb"}}
			if tier == "thorough" {
				histPairs = nil
				for _, s1 := range versSchemes {
					for _, s2 := range versSchemes {
						if s1 != s2 {
							histPairs = append(histPairs, [2]string{s1, s2})
						}
					}
				}
			}
			for _, sp := range histPairs {
				// a shape whose grouping depends on the sorted order: two lower bounds and an upper bound,
				// one of the lower bounds with a suffix that the schemes order differently
				for _, c := range []string{">={d}.{d}.{d}|>={d}.{d}.{d}-{l}{l}{d}|<{d}.{d}.{d}", ">={d}.{d}.{d}|<{d}.{d}.{d}"} {
					for _, fnName := range []string{"C19VersHist", "C19VersHist2"} {
						out = append(out, &Config{ID: fmt.Sprintf("C19/vershist/%s/%s|%s/%s", fnName, sp[0], sp[1], c), Pkg: zzhPkg, Func: fnName,
							Args: []ArgSpec{ArgTmpl("vers:" + sp[0] + "/" + c), ArgTmpl("{d}.{d}.{d}"), ArgTmpl("vers:" + sp[1] + "/" + c), ArgTmpl("{d}.{d}.{d}-{l}{l}{d}")}})
					}
				}
			}
			for _, scheme := range versSchemes {
				ts := versVersionTemplates(scheme, "thorough")
				for _, shape := range []string{">=%s|<%s", "<%s|>=%s|!=%s", "=%s", "*", ">%s|<=%s|>%s|<=%s"} {
					if (scheme == "gem" || scheme == "maven") && strings.Count(shape, "|") >= 3 {
						continue
					}
					r := "vers:" + scheme + "/" + fillShape(shape, ts)
					out = append(out, &Config{ID: fmt.Sprintf("C19/vers/%s/%s", scheme, r), Pkg: zzhPkg, Func: "C19Vers", Monitor: true, Args: []ArgSpec{ArgTmpl(r), ArgTmpl(ts[0])}})
				}
			}
			return out
		},
		Bounds: func(tier string) string {
			return "per ecosystem 4x4 (quick) / 8x8 (thorough) version templates x 6 / 16 range templates (comparator and shorthand forms), all operations NewVersion, NewVersionRange, Compare, Contains, String after the epoch; vers.Contains on 5 range shapes per scheme; history independence: the same ecosystem calls before and after unrelated calls and on freshly parsed values, a two-comparator range next to four spellings of itself that differ in one insignificant space (String() of each must be its own text), vers.Contains before and after a call with the same constraint text under another scheme (8 scheme pairs quick, all 110 thorough); schedules are not enumerated (reduction to write-freedom); correctly synchronised shared mutable state would be reported, conservatively, as a shared write"
		},
		Assume: []string{"regexp.Regexp, and the standard library functions modelled by intrinsics, are safe for concurrent use as documented",
			"reduction: if no call writes memory reachable by another call and every call is deterministic, all interleavings are equivalent to a sequential run"},
	})
}

func fillShape(shape string, ts []string) string {
	out := ""
	k := 0
	for i := 0; i < len(shape); i++ {
		if shape[i] == '%' && i+1 < len(shape) && shape[i+1] == 's' {
			out += ts[k%len(ts)]
			k++
			i++
			continue
		}
		out += string(shape[i])
	}
	return out
}
