package main

import (
	"fmt"
	"strings"
)

func init() {
	registerCheck(&CheckDef{
		ID:    "C19",
		Title: "no operation writes memory that another call can reach (shared versions, ranges, ecosystems, package-level variables) and no operation consults a nondeterminism source; repeated calls return equal results",
		Pkgs:  []string{zzhPkg},
		Rule:  "write monitor + nondeterminism monitor over every path of C19Ops (ecosystem x version/range templates) and C19Vers; by reduction (no shared write => every interleaving equals a sequential run) this decides race freedom within the explored inputs",
		Gen: func(tier string) []*Config {
			var out []*Config
			for _, eco := range ecosystems {
				all := versionTemplates(eco, "m")
				nv, nr := 4, 6
				if tier == "thorough" {
					nv, nr = 8, 16
				}
				vs := pick(eco, all, nv-2)
				bounds := thin(rangeSafe(eco, all), 3)
				var rs []string
				if len(bounds) > 0 {
					rs = append(rs, comparatorRanges(eco, bounds)...)
				}
				rs = append(rs, shorthandRanges(eco)...)
				rs = thin(rs, nr)
				for _, a := range vs {
					for _, b := range vs {
						for _, r := range rs {
							out = append(out, &Config{ID: fmt.Sprintf("C19/ops/%s/%s|%s|%s", eco, a, b, r), Pkg: zzhPkg, Func: "C19Ops", Monitor: true, NoPanic: false,
								Args: []ArgSpec{ArgStr(eco), ArgTmpl(a), ArgTmpl(b), ArgTmpl(r)}})
						}
					}
				}
			}
			for _, scheme := range versSchemes {
				ts := versVersionTemplates(scheme, "thorough")
				for _, shape := range []string{">=%s|<%s", "<%s|>=%s|!=%s", "=%s", "*", ">%s|<=%s|>%s|<=%s"} {
					if (scheme == "gem" || scheme == "maven") && strings.Count(shape, "|") >= 3 {
						continue
					}
					r := "vers:" + scheme + "/" + fillShape(shape, ts)
					out = append(out, &Config{ID: fmt.Sprintf("C19/vers/%s/%s", scheme, r), Pkg: zzhPkg, Func: "C19Vers", Monitor: true, Args: []ArgSpec{ArgTmpl(r), ArgTmpl(ts[0])}})
				}
			}
			return out
		},
		Bounds: func(tier string) string {
			return "per ecosystem 4x4 (quick) / 8x8 (thorough) version templates x 6 / 16 range templates (comparator and shorthand forms), all operations NewVersion, NewVersionRange, Compare, Contains, String after the epoch; vers.Contains on 5 range shapes per scheme; schedules are not enumerated (reduction to write-freedom); correctly synchronised shared mutable state would be reported, conservatively, as a shared write"
		},
		Assume: []string{"regexp.Regexp, and the standard library functions modelled by intrinsics, are safe for concurrent use as documented",
			"reduction: if no call writes memory reachable by another call and every call is deterministic, all interleavings are equivalent to a sequential run"},
	})
}

func fillShape(shape string, ts []string) string {
	out := ""
	k := 0
	for i := 0; i < len(shape); i++ {
		if shape[i] == '%' && i+1 < len(shape) && shape[i+1] == 's' {
			out += ts[k%len(ts)]
			k++
			i++
			continue
		}
		out += string(shape[i])
	}
	return out
}
