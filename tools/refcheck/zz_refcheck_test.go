package zzh

// Dev-time validation of the reference models against the real tools present in this image
// (dpkg, python packaging, Maven's ComparableVersion). Not part of any registered check.
// Run: /verif/tools/refcheck/run.sh

import (
	"bufio"
	"fmt"
	"math/rand"
	"os"
	"os/exec"
	"strings"
	"testing"
)

func genFrom(r *rand.Rand, alphabet string, maxLen int) string {
	n := 1 + r.Intn(maxLen)
	b := make([]byte, n)
	for i := range b {
		b[i] = alphabet[r.Intn(len(alphabet))]
	}
	return string(b)
}

func TestRefDpkg(t *testing.T) {
	if _, err := exec.LookPath("dpkg"); err != nil {
		t.Skip("no dpkg")
	}
	r := rand.New(rand.NewSource(1))
	n, bad := 0, 0
	for n < 4000 {
		a := genFrom(r, "0012359abzAZ.+~-:", 7)
		b := genFrom(r, "0012359abzAZ.+~-:", 7)
		if !dpkgValid(a) || !dpkgValid(b) {
			continue
		}
		n++
		want := 0
		if exec.Command("dpkg", "--compare-versions", a, "lt", b).Run() == nil {
			want = -1
		} else if exec.Command("dpkg", "--compare-versions", a, "gt", b).Run() == nil {
			want = 1
		}
		if got := dpkgCompare(a, b); got != want {
			bad++
			if bad < 20 {
				t.Errorf("dpkg %q vs %q: model %d, dpkg %d", a, b, got, want)
			}
		}
	}
	fmt.Println("dpkg pairs checked:", n, "mismatches:", bad)
}

func runLines(t *testing.T, cmd *exec.Cmd, input []string) []string {
	cmd.Stdin = strings.NewReader(strings.Join(input, "\n") + "\n")
	out, err := cmd.Output()
	if err != nil {
		t.Fatalf("%v: %v", cmd.Args, err)
	}
	var lines []string
	sc := bufio.NewScanner(strings.NewReader(string(out)))
	for sc.Scan() {
		lines = append(lines, sc.Text())
	}
	return lines
}

var _ = os.Getenv

func pick(r *rand.Rand, xs ...string) string { return xs[r.Intn(len(xs))] }

func genPep(r *rand.Rand) string {
	d := func() string { return pick(r, "0", "1", "2", "9", "10", "01") }
	s := ""
	if r.Intn(5) == 0 {
		s += d() + "!"
	}
	s += d()
	for k := r.Intn(3); k > 0; k-- {
		s += "." + d()
	}
	if r.Intn(2) == 0 {
		s += pick(r, "", ".") + pick(r, "a", "b", "rc", "alpha", "beta", "c") + d()
	}
	if r.Intn(3) == 0 {
		s += pick(r, "", ".") + pick(r, "post", "rev", "r") + d()
	}
	if r.Intn(3) == 0 {
		s += pick(r, "", ".") + "dev" + d()
	}
	if r.Intn(4) == 0 {
		s += "+" + pick(r, "abc", "1", "a.1", "1.a", "A", "10", "2")
	}
	return s
}

func TestRefPep440(t *testing.T) {
	py, err := exec.LookPath("python3-vt")
	if err != nil {
		t.Skip("no python3-vt")
	}
	r := rand.New(rand.NewSource(2))
	var pairs [][2]string
	var lines []string
	for len(pairs) < 5000 {
		a, b := genPep(r), genPep(r)
		if !pepValid(a) || !pepValid(b) {
			t.Fatalf("model rejects generated %q / %q", a, b)
		}
		pairs = append(pairs, [2]string{a, b})
		lines = append(lines, a+" "+b)
	}
	script := `
import sys
from packaging.version import Version
for l in sys.stdin:
    a,b=l.split()
    x,y=Version(a),Version(b)
    print(-1 if x<y else (1 if x>y else 0))
`
	out := runLines(t, exec.Command(py, "-c", script), lines)
	bad := 0
	for i, p := range pairs {
		want := 0
		fmt.Sscan(out[i], &want)
		if got := pepCompare(p[0], p[1]); got != want {
			bad++
			if bad < 20 {
				t.Errorf("pep440 %q vs %q: model %d, packaging %d", p[0], p[1], got, want)
			}
		}
	}
	fmt.Println("pep440 pairs checked:", len(pairs), "mismatches:", bad)
}

func genMaven(r *rand.Rand) string {
	d := func() string { return pick(r, "0", "1", "2", "9", "10", "01", "00") }
	s := d()
	for k := r.Intn(4); k > 0; k-- {
		s += "." + d()
	}
	q := pick(r, "alpha", "beta", "milestone", "rc", "cr", "snapshot", "ga", "final", "release", "sp", "foo", "xyz", "a", "b", "m", "ALPHA", "Final", "RC", "SNAPSHOT", "q")
	switch r.Intn(6) {
	case 0:
	case 1:
		s += pick(r, ".", "-") + q
	case 2:
		s += pick(r, ".", "-") + q + d()
	case 3:
		s += pick(r, ".", "-") + q + pick(r, ".", "-") + d()
	case 4:
		s += pick(r, ".", "-") + d()
	case 5:
		s += "-" + q + "-" + d()
	}
	return s
}

func TestRefMaven(t *testing.T) {
	jar := "/usr/share/maven/lib/maven-artifact-3.x.jar"
	if _, err := os.Stat(jar); err != nil {
		t.Skip("no maven jar")
	}
	r := rand.New(rand.NewSource(3))
	n, bad, exotic := 0, 0, 0
	for n < 1500 {
		a, b := genMaven(r), genMaven(r)
		if !mavenConventional(a) || !mavenConventional(b) {
			exotic++
			continue
		}
		n++
		out, err := exec.Command("java", "-cp", jar, "org.apache.maven.artifact.versioning.ComparableVersion", a, b).Output()
		if err != nil {
			t.Fatal(err)
		}
		// output lines: "1. a == x" then "   a < b" style
		want := 99
		for _, l := range strings.Split(string(out), "\n") {
			f := strings.Fields(l)
			if len(f) == 3 && f[0] == a && f[2] == b {
				switch f[1] {
				case "<":
					want = -1
				case "==":
					want = 0
				case ">":
					want = 1
				}
			}
		}
		if want == 99 {
			t.Fatalf("cannot parse java output for %q %q: %s", a, b, out)
		}
		if got := mavenCompare(a, b); got != want {
			bad++
			if bad < 25 {
				t.Errorf("maven %q vs %q: model %d, ComparableVersion %d", a, b, got, want)
			}
		}
	}
	fmt.Println("maven pairs checked:", n, "mismatches:", bad, "exotic skipped:", exotic)
}

func dumpM(l *mList) string {
	s := "["
	for i, it := range l.items {
		if i > 0 {
			s += ","
		}
		switch it.kind {
		case mInt:
			s += it.num
		case mStr:
			s += "'" + it.str + "'"
		default:
			s += dumpM(it.sub)
		}
	}
	return s + "]"
}

func TestRefMavenDebug(t *testing.T) {
	for _, v := range []string{"0.sp10", "00-foo9", "1.0-1", "1.0.1", "1-1"} {
		fmt.Println(v, dumpM(mParse(v)))
	}
	fmt.Println(mavenCompare("0.sp10", "00-foo9"))
}

func TestRefApk(t *testing.T) {
	data, err := os.ReadFile("/repo/pkg/ecosystem/alpine/testdata/compare.txt")
	if err != nil {
		t.Skip(err)
	}
	n, bad := 0, 0
	for _, l := range strings.Split(string(data), "\n") {
		f := strings.Fields(l)
		if len(f) != 3 {
			continue
		}
		a, op, b := f[0], f[1], f[2]
		if !apkWellFormedPair(a, b) {
			continue
		}
		want := map[string]int{"<": -1, ">": 1, "=": 0, "==": 0}[op]
		n++
		if got := apkCompare(a, b); got != want {
			bad++
			t.Errorf("apk %q %s %q: model %d", a, op, b, got)
		}
	}
	fmt.Println("apk well-formed rows checked:", n, "mismatches:", bad)
}

func TestRefRpm(t *testing.T) {
	// rows from rpm's tests/rpmvercmp.at (RPMVERCMP(a, b, expected))
	rows := []struct {
		a, b string
		w    int
	}{{"1.0", "1.0", 0}, {"1.0", "2.0", -1}, {"2.0", "1.0", 1}, {"2.0.1", "2.0.1", 0}, {"2.0", "2.0.1", -1}, {"2.0.1", "2.0", 1},
		{"2.0.1a", "2.0.1a", 0}, {"2.0.1a", "2.0.1", 1}, {"2.0.1", "2.0.1a", -1}, {"5.5p1", "5.5p1", 0}, {"5.5p1", "5.5p2", -1}, {"5.5p2", "5.5p1", 1},
		{"5.5p10", "5.5p10", 0}, {"5.5p1", "5.5p10", -1}, {"5.5p10", "5.5p1", 1}, {"10xyz", "10.1xyz", -1}, {"10.1xyz", "10xyz", 1}, {"xyz10", "xyz10", 0},
		{"xyz10", "xyz10.1", -1}, {"xyz10.1", "xyz10", 1}, {"xyz.4", "xyz.4", 0}, {"xyz.4", "8", -1}, {"8", "xyz.4", 1}, {"xyz.4", "2", -1}, {"2", "xyz.4", 1},
		{"5.5p2", "5.6p1", -1}, {"5.6p1", "5.5p2", 1}, {"5.6p1", "6.5p1", -1}, {"6.5p1", "5.6p1", 1}, {"6.0.rc1", "6.0", 1}, {"6.0", "6.0.rc1", -1},
		{"10b2", "10a1", 1}, {"10a2", "10b2", -1}, {"1.0aa", "1.0aa", 0}, {"1.0a", "1.0aa", -1}, {"1.0aa", "1.0a", 1}, {"10.0001", "10.0001", 0},
		{"10.0001", "10.1", 0}, {"10.1", "10.0001", 0}, {"10.0001", "10.0039", -1}, {"10.0039", "10.0001", 1}, {"4.999.9", "5.0", -1}, {"5.0", "4.999.9", 1},
		{"20101121", "20101121", 0}, {"20101121", "20101122", -1}, {"20101122", "20101121", 1}, {"2_0", "2_0", 0}, {"2.0", "2_0", 0}, {"2_0", "2.0", 0},
		{"a", "a", 0}, {"a+", "a+", 0}, {"a+", "a_", 0}, {"a_", "a+", 0}, {"+a", "+a", 0}, {"+a", "_a", 0}, {"_a", "+a", 0}, {"+_", "+_", 0}, {"_+", "+_", 0}, {"_+", "_+", 0}, {"+", "_", 0}, {"_", "+", 0},
		{"1.0~rc1", "1.0~rc1", 0}, {"1.0~rc1", "1.0", -1}, {"1.0", "1.0~rc1", 1}, {"1.0~rc1", "1.0~rc2", -1}, {"1.0~rc2", "1.0~rc1", 1}, {"1.0~rc1~git123", "1.0~rc1~git123", 0},
		{"1.0~rc1~git123", "1.0~rc1", -1}, {"1.0~rc1", "1.0~rc1~git123", 1}, {"1.0^", "1.0^", 0}, {"1.0^", "1.0", 1}, {"1.0", "1.0^", -1}, {"1.0^git1", "1.0^git1", 0},
		{"1.0^git1", "1.0", 1}, {"1.0", "1.0^git1", -1}, {"1.0^git1", "1.0^git2", -1}, {"1.0^git2", "1.0^git1", 1}, {"1.0^git1", "1.01", -1}, {"1.01", "1.0^git1", 1},
		{"1.0^20160101", "1.0^20160101", 0}, {"1.0^20160101", "1.0.1", -1}, {"1.0.1", "1.0^20160101", 1}, {"1.0^20160101^git1", "1.0^20160101^git1", 0},
		{"1.0^20160102", "1.0^20160101^git1", 1}, {"1.0^20160101^git1", "1.0^20160102", -1}, {"1.0~rc1^git1", "1.0~rc1^git1", 0}, {"1.0~rc1^git1", "1.0~rc1", 1},
		{"1.0~rc1", "1.0~rc1^git1", -1}, {"1.0^git1~pre", "1.0^git1~pre", 0}, {"1.0^git1", "1.0^git1~pre", 1}, {"1.0^git1~pre", "1.0^git1", -1}}
	bad := 0
	for _, r := range rows {
		if got := rpmvercmp(r.a, r.b); got != r.w {
			bad++
			t.Errorf("rpmvercmp(%q,%q) = %d, want %d", r.a, r.b, got, r.w)
		}
	}
	fmt.Println("rpmvercmp rows checked:", len(rows), "mismatches:", bad)
}

func TestRefGem(t *testing.T) {
	// rows in the spirit of rubygems test_gem_version.rb (test_spaceship, test_prerelease, ...)
	rows := []struct {
		a, b string
		w    int
	}{{"1.0", "1.0.0", 0}, {"1.0", "1.0.a", 1}, {"1.8.2", "0.0.0", 1}, {"1.8.2", "1.8.2.a", 1}, {"1.8.2.b", "1.8.2.a", 1}, {"1.8.2.a", "1.8.2", -1},
		{"1.8.2.a10", "1.8.2.a9", 1}, {"", "0", 0}, {"0.beta.1", "0.0.beta.1", 0}, {"0.0.beta", "0.0.beta.1", -1}, {"0.0.beta", "0.beta.1", -1},
		{"5.a", "5.0.0.rc2", -1}, {"5.x", "5.0.0.rc2", 1}, {"1.9.3", "1.9.3.1", -1}, {"1.9.3", "1.9.2.99", 1}, {"1.0.0-alpha", "1.0.0.alpha", 1},
		{"2.0.0.rc1", "2.0.0", -1}, {"1.0.0.beta.2", "1.0.0.beta.10", -1}, {"1.0.0-1", "1.0.0", -1}, {"1.2.3.a4", "1.2.3.a10", -1}, {"1.0.0.pre", "1.0.0-alpha", 0 + 1}}
	bad := 0
	for _, r := range rows {
		if r.a == "" {
			continue
		}
		if got := gemCompare(r.a, r.b); got != r.w {
			bad++
			t.Errorf("gem %q <=> %q = %d, want %d", r.a, r.b, got, r.w)
		}
	}
	fmt.Println("gem rows checked:", len(rows), "mismatches:", bad)
}
