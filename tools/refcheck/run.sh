#!/bin/sh
# Dev-time: run the reference-model validation tests natively with the harness overlay.
python3 - <<'PY'
import json,os
rep={}
for root,d,files in os.walk('/verif/harness'):
    for f in files:
        if f.endswith('.go'):
            p=os.path.join(root,f)
            rep['/repo/'+os.path.relpath(p,'/verif/harness')]=p
rep['/repo/pkg/zzh/zz_refcheck_test.go']='/verif/tools/refcheck/zz_refcheck_test.go'
json.dump({"Replace":rep},open('/tmp/vx_ov_ref.json','w'))
PY
cd /repo && GOFLAGS=-mod=mod GOPROXY=off go test -c -vet=off -overlay /tmp/vx_ov_ref.json -o /tmp/refcheck.test ./pkg/zzh/ && cd /tmp && ./refcheck.test -test.v -test.run "${1:-TestRef}" ; rm -f /tmp/refcheck.test
