#!/usr/bin/env python3
"""savemutant.py <src dir> <seeded id> <property> --caught C10,C01 --missed C03 --note "..." """
import sys, json, os, shutil, argparse
ap=argparse.ArgumentParser()
ap.add_argument('src'); ap.add_argument('sid'); ap.add_argument('prop')
ap.add_argument('--caught', default=''); ap.add_argument('--missed', default=''); ap.add_argument('--note', default='')
a=ap.parse_args()
dst=f'/verif/seeded/{a.sid}'
os.makedirs(dst, exist_ok=True)
shutil.copy(a.src+'/patch.diff', dst+'/patch.diff')
shutil.copy(a.src+'/demo_test.go', dst+'/demo_test.go')
m=json.load(open(a.src+'/meta.json'))
meta={"breaks_property":a.prop,"origin":"written by an independent sub-agent that saw only the property text and a scratch worktree of /repo",
 "summary":m.get('summary'),"where":m.get('where') or m.get('ecosystem'),"needs_to_manifest":m.get('needs'),"failing_example":m.get('failing_example'),
 "confirmed_by_me":["tools/evalmutant.sh: in a fresh scratch worktree of /repo HEAD the demonstration passes without the patch and fails with it; `go test ./...` passes with the patch",
                    "checks run against the patched scratch worktree (VX_REPO=<worktree> ./bin/vx check <id>, quick tier); equivalent to git -C /repo apply patch.diff; ./bin/vx check <id>; git -C /repo checkout -- ."],
 "caught_by":[c for c in a.caught.split(',') if c],"not_caught_by":[c for c in a.missed.split(',') if c],"note":a.note}
json.dump(meta,open(dst+'/meta.json','w'),indent=1)
print('saved',dst)
