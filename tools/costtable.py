#!/usr/bin/env python3
"""costtable.py [tier] - print the DESIGN 0.4 table rows from /verif/evidence/*.json (or .logs/<tier>_*.txt for the other tier)"""
import json, glob, sys, re, os
tier = sys.argv[1] if len(sys.argv) > 1 else 'quick'
rows = []
for i in range(1, 21):
    cid = 'C%02d' % i
    f = '/verif/evidence/%s.json' % cid
    if tier == 'thorough' and os.path.exists('/verif/evidence_thorough/%s.json' % cid):
        f = '/verif/evidence_thorough/%s.json' % cid
    ev = json.load(open(f))
    if ev['tier'] == tier:
        c = ev['coverage']
        rows.append((cid, c['configs'], c['top_level_paths'], c['merged_call_paths'], c['queries']['total'], c['queries']['unsat'], c['queries']['unknown'], c['unexplored_configs'], ev['wall_s']))
        continue
    log = '/verif/.logs/%s_%s.txt' % (tier, cid)
    if not os.path.exists(log):
        continue
    m = re.search(r'configs=(\d+) paths=(\d+) merged_paths=(\d+) queries=(\d+) \(unsat=(\d+) sat=\d+ unknown=(\d+)\).* wall=([\d.]+)s.* unexplored=(\d+)', open(log).read())
    if m:
        g = m.groups()
        rows.append((cid, int(g[0]), int(g[1]), int(g[2]), int(g[3]), int(g[4]), int(g[5]), int(g[7]), float(g[6])))
print('| id | configs | top paths | merged paths | queries (unsat) | unknown | unexplored | wall |')
print('|---|---|---|---|---|---|---|---|')
tot = 0
for r in rows:
    tot += r[8]
    print('| %s | %s | %s | %.2f M | %s (%s) | %d | %d | %.0f s |' % (r[0], f'{r[1]:,}'.replace(',', ' '), f'{r[2]:,}'.replace(',', ' '), r[3] / 1e6, f'{r[4]:,}'.replace(',', ' '), f'{r[5]:,}'.replace(',', ' '), r[6], r[7], r[8]))
print('total wall: %.1f min' % (tot / 60))
