#!/bin/bash
# usage: tools/runall.sh <tier> [ids...]   (default: all 20) - runs the checks one after the other in /verif
cd /verif
tier=${1:-quick}; shift
ids=${@:-C01 C02 C03 C04 C05 C06 C07 C08 C09 C10 C11 C12 C13 C14 C15 C16 C17 C18 C19 C20}
mkdir -p /verif/.logs
for c in $ids; do
  /usr/bin/time -f "%es" ./bin/vx check $c --tier $tier > /verif/.logs/${tier}_$c.txt 2>&1
  echo "== $c exit=$? $(grep -E "^C[0-9]+ $tier" /verif/.logs/${tier}_$c.txt | sed 's/inputs_covered=[0-9]*//' | cut -c1-260) $(tail -1 /verif/.logs/${tier}_$c.txt)"
  grep -E "^(VIOLATION|INCONCLUSIVE|VACUOUS)" /verif/.logs/${tier}_$c.txt | head -4 | cut -c1-300
done
