#!/bin/bash
# usage: tools/evalall.sh [parallel]  - re-evaluates every seeded change under /verif/seeded against the
# check(s) its meta.json names in caught_by (quick tier, scratch worktrees); prints one line each
cd /verif
P=${1:-3}
mkdir -p /verif/.logs/seeded
ls seeded | while read d; do
  c=$(python3 -c "import json;print(' '.join(json.load(open('/verif/seeded/$d/meta.json'))['caught_by'][:1]))")
  echo "$d $c"
done | xargs -P $P -L 1 sh -c 'tools/evalmutant.sh /verif/seeded/$0 $1 > /verif/.logs/seeded/$0.txt 2>&1; echo "$0: $(grep -E "^check " /verif/.logs/seeded/$0.txt | cut -c1-60) $(grep -c "bad mutant\|DOES NOT APPLY" /verif/.logs/seeded/$0.txt)"'
