#!/bin/bash
# run inside a vp-run snapshot: thorough tier of the listed checks, one after the other
cd engine && GOFLAGS=-mod=mod GOPROXY=off GOTOOLCHAIN=local go1.26.8 build -o ../bin/vx . && cd ..
for c in "$@"; do
  /usr/bin/time -f "$c wall %es" ./bin/vx check $c --tier thorough > log_$c.txt 2>&1
  echo "== $c exit=$? $(grep -E "^C[0-9]+ thorough" log_$c.txt | sed 's/inputs_covered=[0-9]*//' | cut -c1-260)"
  grep -E "^(VIOLATION|INCONCLUSIVE|VACUOUS)" log_$c.txt | head -6 | cut -c1-300
done
