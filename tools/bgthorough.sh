#!/bin/bash
# run inside a vp-run snapshot: build vx there and run one thorough check against /repo
cd engine && GOFLAGS=-mod=mod GOPROXY=off GOTOOLCHAIN=local go1.26.8 build -o ../bin/vx . && cd .. && ./bin/vx check "$1" --tier thorough -v "${@:2}"
