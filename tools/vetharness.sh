#!/bin/sh
# Type-check the overlaid harness packages against /repo (dev helper).
python3 - <<'PY'
import json,os
rep={}
for root,d,files in os.walk('/verif/harness'):
    for f in files:
        if f.endswith('.go'):
            p=os.path.join(root,f)
            rep['/repo/'+os.path.relpath(p,'/verif/harness')]=p
json.dump({"Replace":rep},open('/tmp/vx_ov.json','w'))
PY
cd /repo && GOFLAGS=-mod=mod GOPROXY=off go build -overlay /tmp/vx_ov.json ./pkg/zzh/ ./pkg/zzvv/ ./pkg/zzsemver/ ./cmd/ "$@"
