#!/bin/bash
# usage: evalmutant.sh <mutant dir with patch.diff, demo_test.go, meta.json> <check ids...>
# 1. confirms the mutant in a scratch worktree (suite green with patch; demo fails with, passes without)
# 2. runs the given checks (quick) against that worktree (VX_REPO), then removes it.
set -u
M=$(cd "$1" && pwd); shift
W=$(mktemp -d /tmp/mutcheck.XXXX)
git -C /repo worktree add --detach "$W" HEAD -f >/dev/null 2>&1
cd "$W"
dir=${DEMO_DIR:-}
[ -z "$dir" ] && dir=$(head -3 "$M/demo_test.go" | grep -oE 'place in: *[A-Za-z0-9_/.-]+' | head -1 | sed 's/place in: *//')
[ -z "$dir" ] && grep -q '^package main' "$M/demo_test.go" && dir=cmd
[ -z "$dir" ] && dir=$(grep -oE '(pkg/[a-z/]+|cmd)/?' "$M/demo_test.go" | head -1); dir=${dir%/}
if [ -z "$dir" ]; then dir=$(python3 -c "import json;print(json.load(open('$M/meta.json')).get('demo_dir',''))"); fi
echo "demo dir: $dir"
export GOFLAGS=-mod=mod GOPROXY=off
cp "$M/demo_test.go" "$dir/zz_demo_test.go"
go test -count=1 ./$dir/ >$W.nopatch.log 2>&1 && echo "demo WITHOUT patch: pass" || { echo "demo WITHOUT patch: FAIL (bad mutant)"; tail -5 $W.nopatch.log; }
git apply "$M/patch.diff" || echo "PATCH DOES NOT APPLY"
timeout 300 go test -count=1 ./$dir/ >$W.patch.log 2>&1 && echo "demo WITH patch: pass (bad mutant)" || echo "demo WITH patch: fail (as intended)"
rm "$dir/zz_demo_test.go"
go test -count=1 ./... 2>&1 | grep -v "^ok\|no test files" | head -5; echo "suite with patch: done (lines above = failures)"
# checks run on the scratch worktree (VX_REPO), so /repo and other runs are not disturbed
cd /verif
E=$(mktemp -d /tmp/mutev.XXXX)
for c in "$@"; do
  VX_REPO="$W" VX_EVIDENCE="$E" timeout 1500 ./bin/vx check $c > /tmp/mut_$(basename $M)_$c.log 2>&1; rc=$?
  L=/tmp/mut_$(basename $M)_$c.log
  echo "check $c exit=$rc $(grep -c '^VIOLATION' $L) violation lines; $(grep -E '^C[0-9]+ quick' $L | sed 's/inputs_covered=[0-9]*//' | cut -c1-40) $(grep -oE 'vacuous=.*' $L | tail -1)"
  grep '^VIOLATION' $L | head -2 | cut -c1-260
done
rm -rf "$E"
cd /; git -C /repo worktree remove --force "$W"; rm -f $W.nopatch.log $W.patch.log
