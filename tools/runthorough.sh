#!/bin/bash
# usage: tools/runthorough.sh [ids...] - thorough tier of the checks one after the other in /verif; the evidence of each
# run is copied to /verif/evidence_thorough/ (evidence/<id>.json itself is rewritten by the next quick run)
cd /verif
ids=${@:-C02 C03 C05 C08 C09 C10 C11 C12 C13 C14 C15 C17 C18 C19 C06 C07 C20 C01 C16 C04}
mkdir -p /verif/.logs /verif/evidence_thorough
for c in $ids; do
  /usr/bin/time -f "%es" ./bin/vx check $c --tier thorough > /verif/.logs/thorough_$c.txt 2>&1
  rc=$?
  cp /verif/evidence/$c.json /verif/evidence_thorough/$c.json
  echo "== $c exit=$rc $(grep -E "^C[0-9]+ thorough" /verif/.logs/thorough_$c.txt | sed 's/inputs_covered=[0-9]*//' | cut -c1-260) $(tail -1 /verif/.logs/thorough_$c.txt)"
  grep -E "^(VIOLATION|INCONCLUSIVE|VACUOUS)" /verif/.logs/thorough_$c.txt | head -4 | cut -c1-300
done
