#!/usr/bin/env python3
"""Write /verif/MANIFEST.json from the list of registered checks below."""
import json
props=[json.loads(l) for l in open('/verif/properties.jsonl')]
notes={
 'C01':"Compare laws (sign range, antisymmetry, reflexivity, re-parse stability, transitivity incl. strictness) for all 20 ecosystems, decided per template pair/triple by z3 over every content of the symbolic bytes",
 'C02':"biconditional Contains == comparator(Compare) for every documented comparator, AND separator and OR separator",
 'C03':"numeric tuple order against a textual oracle; direction of pre/post markers",
 'C04':"whole VERS pipeline executed symbolically against the union-of-intervals denotation, every VERS-valid comparator sequence up to 3 constraints",
 'C05':"documented intervals of shorthand constructs (spec-side table) compared through the ecosystem's own Compare",
 'C06':"raw mode: every byte symbolic; panics, unwinding failures and value-xor-error decided per path",
 'C07':"real slices.SortFunc source executed symbolically on 3-element lists; permutation, order and class-sequence assertions; CLI sort path",
 'C08':"differential against golang.org/x/mod/semver executed symbolically by the same engine; strictness of the semver grammar in raw mode",
 'C09':"differential against a PEP 440 key model validated against packaging 26.3",
 'C10':"differential against a dpkg verrevcmp model validated against /usr/bin/dpkg",
 'C11':"differential against an rpmvercmp model validated on rpm's own test vectors",
 'C12':"differential against a ComparableVersion model validated against maven-artifact 3.8.7",
 'C13':"differential against a Gem::Version model",
 'C14':"differential against an apk-tools rule model validated on apk-tools' version.data",
 'C15':"cmd.run executed symbolically next to the library call chosen by a spec-side name table",
 'C16':"metamorphic: two executions of vers.Contains related by permutation / space insertion / duplication / empty constraints",
 'C17':"single-point corruptions with a symbolic byte against a spec-side mustError predicate; routing by discriminating versions",
 'C18':"String()/re-parse/whitespace padding equalities with symbolic padding bytes and symbolic version content",
 'C19':"write monitor and nondeterminism monitor over every explored path (reduction: no shared write => interleavings equal a sequential run); native replays run two goroutines under the race detector",
 'C20':"congruence and convexity of Contains with respect to Compare over comparator and shorthand range templates",
}
checks=[]
for p in props:
    i=p['id']
    checks.append({
      "property_id":i,
      "quick_cmd":f"./bin/vx check {i} --tier quick",
      "thorough_cmd":f"./bin/vx check {i} --tier thorough",
      "evidence_file":f"/verif/evidence/{i}.json",
      "replay_cmd_template":"./bin/vx replay {path}",
      "engine":"vx",
      "level_claimed":{"category":"model_checking","text":"bounded symbolic execution of the real Go SSA of go-univers (and of the pure-Go standard library underneath): inputs are strings of concrete length with symbolic bytes; every assertion is decided by an SMT solver for all contents of the listed templates, or answered with a concrete input that is replayed natively before it is reported. "+notes[i],"design_ref":"DESIGN.md §7 "+i},
      "level_note":"trusted: go/ssa (x/tools v0.50.0), the engine's SSA semantics and intrinsics (regexp matcher, fmt, selected strings/strconv/unicode/math-big functions; validated by native replay of every model and by the selfcheck), z3 5.1 (z3-new); bounds = the template sets and lengths stated in the evidence; spec-side tables and reference models as listed under assumptions in the evidence",
      "technique":"solver-based bounded checking: Go SSA symbolic execution -> Int/Bool SMT-LIB2 -> z3, native replay of counterexamples"})
m={"version":1,
 "setup_cmd":"cd /verif/engine && GOFLAGS=-mod=mod GOPROXY=off GOTOOLCHAIN=local go1.26.8 build -o /verif/bin/vx . && cd /verif && ./bin/vx selfcheck",
 "hooks":{"guard":"verif","enable":"none needed: harnesses (/verif/harness) are injected with go/packages overlays for encoding and go test -overlay for native replay; /repo carries no hook commits, only fix: commits","baseline_off_cmd":"cd /repo && go test -vet=off -count=1 -timeout 25m ./...","source_commits":[],"add_only":True},
 "engines":[{"name":"vx","path":"/verif/engine","serves_properties":[p['id'] for p in props],"kind_free_text":"Go SSA symbolic executor (go/ssa with InstantiateGenerics -> hash-consed Int/Bool terms -> SMT-LIB2 -> z3 5.1), DFS by re-execution with merge-at-return and memoised summaries, native replay of every model through go test -overlay"}],
 "checks":checks,
 "notes":"exit 0 = held on everything explored (INCONCLUSIVE lines shrink the stated coverage, never count as success of that configuration); exit 1 + VIOLATION line = natively reproduced violation outside the open entries of known_findings.json; exit 2 = infrastructure failure",
 "not_applicable":[]}
json.dump(m,open('/verif/MANIFEST.json','w'),indent=1)
